"""Instruction-instance generator and observers for the avr part of C08.

Python here only (a) enumerates instances of ppci.arch.avr's instruction classes (every register / register pair
in every register slot, the diagonal, boundary immediates / displacements / addresses / label distances from
TLC's table (idiom G, tla/Avr_MC.tla)), (b) drives the real code -- Instruction.encode(), str(instruction), the
instruction's own relocation, the assembler -- and records what it did, (c) tokenises printed text lexically
(register / pair / pointer name -> number is the only interpretation; a label token carries the byte address the
harness resolved it to).  The verdicts are TLC's (tla/Avr_Eval.tla over tla/Avr.tla)."""
import re

from . import isagen

ISA = "avr"
PLACE = 0x1000
LAWS = {"w16": ["LawOneFormat", "LawReencode"], "w32": ["LawReencode32"], "ins": ["LawDecodeEncode"], "ln": ["LawLine"],
        "ka": ["LawKnown"], "fld": ["LawFields"], "mn": ["LawMnemonic"]}
WHAT = "Avr.tla"
LABEL = "L_t"
LABEL_KINDS = ("rel12", "rel7", "abs22", "sym16")

# ---------------------------------------------------------------- lexer
_PTR = {"x": 26, "y": 28, "z": 30}
_WORDS = {"low", "high", "lo8", "hi8"}
_TOK = re.compile(r"\s*(?:(r\d+:r\d+)|([A-Za-z_][A-Za-z_0-9]*)|(0x[0-9a-fA-F]+|\d+)|(.))")


def tokenize(text, labels=None):
    """'ldd r4, Y+3' -> ('ldd', [['r',4,'r4'], ['p',28,'Y'], ['+',0,''], ['i',3,'']]).  Purely lexical; commas and
    blanks are dropped.  A '-' at the start of an operand and directly before a number is its sign; '.+N' / '.-N' of
    the reference disassembler is the integer N."""
    labels = labels or {}
    text = text.strip()
    m = re.match(r"^([A-Za-z_][A-Za-z_0-9]*)", text)
    if not m:
        return None
    mn = m.group(1).lower()
    rest = text[m.end():]
    ops = []
    pos = 0
    start = True      # at the start of an operand
    neg = False
    dot = False
    while pos < len(rest):
        t = _TOK.match(rest, pos)
        if not t:
            break
        pos = t.end()
        if t.group(1):
            hi, lo = [int(x[1:]) for x in t.group(1).split(":")]
            ops.append(["w", lo, t.group(1)] if hi == lo + 1 and lo % 2 == 0 and hi < 32 else ["x", 0, t.group(1)])
            start = False
        elif t.group(2):
            w = t.group(2)
            lw = w.lower()
            r = re.match(r"^r(\d+)$", lw)
            if neg:
                ops.append(["-", 0, ""])
                neg = False
            if r and int(r.group(1)) < 32:
                ops.append(["r", int(r.group(1)), w])
            elif lw in _PTR:
                ops.append(["p", _PTR[lw], w])
            elif w == "W":
                ops.append(["w", 24, w])
            elif w in labels:
                ops.append(["l", labels[w], w])
            elif lw in _WORDS:
                ops.append(["f", 0, lw])
            else:
                ops.append(["x", 0, w])
            start = False
        elif t.group(3):
            lit = t.group(3)
            v = int(lit, 16) if lit.lower().startswith("0x") else int(lit, 10)
            if neg:
                v = -v
                neg = False
            if not -(1 << 30) < v < (1 << 30):
                return None
            ops.append(["i", v, ""])
            start = False
            dot = False
        else:
            ch = t.group(4)
            if ch in " \t":
                continue
            if neg:
                ops.append(["-", 0, ""])
                neg = False
            if ch == ",":
                start = True
            elif ch == "." and start:
                dot = True
            elif ch == "-" and (start or dot):
                neg = True
            elif ch == "+" and dot:
                pass
            elif ch in "+-()":
                ops.append([ch, 0, ""])
                start = False
            else:
                ops.append(["x", 0, ch])
                start = False
    if neg:
        ops.append(["-", 0, ""])
    return mn, ops


# ---------------------------------------------------------------- classes
def isa_classes():
    """[(name, cls)] concrete instruction classes with a syntax of get_arch('avr').isa (no data directives)."""
    from ppci.api import get_arch
    from ppci.arch.data_instructions import DataInstruction
    out, count = [], {}
    for c in get_arch(ISA).isa.instructions:
        if getattr(c, "syntax", None) is None or issubclass(c, DataInstruction):
            continue
        k = count.get(c.__name__, 0)
        count[c.__name__] = k + 1
        out.append((c.__name__ if k == 0 else "%s#%d" % (c.__name__, k + 1), c))
    return out


def _regs():
    from ppci.arch.avr import registers as R
    singles = [getattr(R, "r%d" % n) for n in range(32)]
    pairs = list(R.all_w_regs)
    return singles, pairs


def slots(cls):
    """[(name, kind)]: r 8-bit register, w register pair, i int, l label."""
    from ppci.arch.avr import registers as R
    res = []
    for a in cls.syntax.formal_arguments:
        t = a._cls
        if t is int:
            k = "i"
        elif t is str:
            k = "l"
        elif isinstance(t, type) and issubclass(t, R.AvrWordRegister):
            k = "w"
        elif isinstance(t, type) and issubclass(t, R.AvrRegister):
            k = "r"
        else:
            k = "?"
        res.append((a._name, k, t))
    return res


def _default(kind, t, k):
    singles, pairs = _regs()
    if kind == "r":
        cands = [r for r in singles if isinstance(r, t)]
        return cands[(5 + 3 * k) % len(cands)] if cands else singles[17 + k]
    if kind == "w":
        cands = [r for r in pairs if isinstance(r, t)]
        return cands[(1 + k) % len(cands)] if cands else pairs[12]
    if kind == "i":
        return 5
    return LABEL


def surface(cls):
    try:
        vals = [_default(k, t, n) for n, (_, k, t) in enumerate(slots(cls))]
        t = tokenize(str(cls(*vals)), {LABEL: PLACE + 0x40})
        return t[0] if t else None
    except Exception:
        return None


QUICK_INTS = {-129, -128, -1, 0, 1, 7, 8, 15, 16, 31, 32, 63, 64, 127, 128, 255, 256, 4660, 65535, 65536}


def enumerate_instances(cname, cls, table, rng, thorough):
    """[{args, tag, valid, place, syms}] for one class."""
    sl = slots(cls)
    if any(k == "?" for _, k, _ in sl):
        return []
    mn = surface(cls)
    singles, pairs = _regs()
    base = [_default(k, t, n) for n, (_, k, t) in enumerate(sl)]
    out = []

    def add(args, tag, valid=True, sym=None):
        out.append({"args": list(args), "tag": tag, "valid": valid, "place": PLACE, "syms": {LABEL: PLACE + 0x40 if sym is None else sym}})

    if not sl:
        add([], "plain")
        return out
    regslots = [n for n, (_, k, _) in enumerate(sl) if k in "rw"]
    # every register (pair) in every register slot -- ppci refuses the ones outside the slot's class --, then the diagonal
    for n in regslots:
        for r in (singles if sl[n][1] == "r" else pairs):
            x = list(base)
            x[n] = r
            add(x, "%s:sweep" % sl[n][0])
    if len(regslots) > 1:
        kinds = {sl[n][1] for n in regslots}
        if len(kinds) == 1:
            for r in (singles if "r" in kinds else pairs):
                x = list(base)
                for n in regslots:
                    x[n] = r
                add(x, "diag")
        if thorough and len(regslots) == 2:
            a, b = regslots
            for ra in (singles if sl[a][1] == "r" else pairs):
                for rb in (singles if sl[b][1] == "r" else pairs):
                    x = list(base)
                    x[a], x[b] = ra, rb
                    add(x, "regs")
    rows = [r for r in table[ISA] if mn in r["mns"]]
    for n, (name, k, _) in enumerate(sl):
        if k == "i":
            for row in [r for r in rows if r["what"] not in LABEL_KINDS]:
                for v in row["vals"]:
                    if not thorough and v["v"] not in QUICK_INTS and v["inside"] and v["v"] not in (row["lo"], row["hi"]):
                        continue
                    x = list(base)
                    x[n] = v["v"]
                    add(x, "%s:%s" % (name, "in" if v["inside"] else "out"), valid=v["inside"])
                if thorough:
                    for _ in range(24):
                        x = list(base)
                        x[n] = rng.randrange(row["lo"], row["hi"] + 1)
                        add(x, "%s:random" % name)
                    for r in ((singles if sl[regslots[0]][1] == "r" else pairs) if regslots else []):   # register x boundary value
                        for v in (row["lo"], row["hi"], (row["hi"] + 1) // 2):
                            x = list(base)
                            x[regslots[0]] = r
                            x[n] = v
                            add(x, "%s:regs" % name)
        elif k == "l":
            for row in [r for r in rows if r["what"] in LABEL_KINDS]:
                for v in row["vals"]:
                    sym = PLACE + 2 + v["v"] if row["what"].startswith("rel") else v["v"]
                    if sym < 0:
                        continue
                    add(base, "%s:%s:%s" % (name, row["what"], "in" if v["inside"] else "out"), valid=v["inside"], sym=sym)
                if thorough and row["what"].startswith("rel"):
                    for _ in range(24):
                        d = rng.randrange(row["lo"] // 2, row["hi"] // 2 + 1) * 2
                        add(base, "%s:random" % name, sym=PLACE + 2 + d)
            if not rows:
                add(base, "%s:default" % name)
    return out


# ---------------------------------------------------------------- records
def record(cname, path, text, out, inst):
    t = tokenize(text, inst["syms"])
    if t is None:
        return None
    mn, ops = t
    labs = [o for o in ops if o[0] == "l"]
    suffix = "".join("@%s=%#x" % (o[2], o[1]) for o in labs)
    return {"t": "enc", "isa": ISA, "key": "C08:%s:%s:%s:%s:%s%s" % (ISA, cname, path, inst["tag"], text, suffix), "mn": mn,
            "ops": ops, "pc": inst["place"], "out": out, "text": text, "cls": cname, "tag": inst["tag"]}


def enc_records(table, rng, thorough, rig=None):
    recs, skipped = [], {}

    def skip(k):
        skipped[k] = skipped.get(k, 0) + 1

    for cname, cls in isa_classes():
        seen = set()
        for inst in enumerate_instances(cname, cls, table, rng, thorough):
            try:
                ins = cls(*inst["args"])
                text = str(ins)
            except Exception as e:      # construction / printing failed: nothing is printed, nothing to compare
                skip("%s:rejected:%s" % (cname, type(e).__name__))
                continue
            sig = (text, tuple(sorted(inst["syms"].items())) if LABEL in text else ())
            if sig in seen:
                continue
            seen.add(sig)
            out = isagen.observe(ins, inst["syms"], inst["place"])
            if not inst["valid"]:
                # operand values outside the field's range are C10's question; here only counted when accepted
                if out["ok"]:
                    skip("%s:out-of-range operand accepted" % cname)
                continue
            if not out["ok"]:
                skip("%s:not encodable:%s" % (cname, out["exc"]))
            r = record(cname, "enc", text, out, inst)
            if r is None:
                skip("%s:not tokenisable" % cname)
                continue
            recs.append(r)
            if rig is not None and LABEL not in text:
                r2 = record(cname, "asm", text, rig.observe_asm(ISA, text), inst)
                if r2 is not None:
                    recs.append(r2)
    return recs, skipped


# ---------------------------------------------------------------- spec validation against llvm-mc
TRIPLE = ["--triple=avr", "-mattr=+avr6,+des,+rmw,+spmx"]


def _is32_guess(w):
    """First words llvm-mc must be given two words for: a *guess* used only to build the corpus."""
    return ((w >> 10) == 0x24 and (w & 15) == 0) or ((w >> 9) == 0x4A and ((w >> 2) & 3) == 3)


def _crashes_llvm14(b):
    """LLVM 14's AVR disassembler dies on ldd / std with a displacement (10q0 qq.d dddd .qqq, q # 0)."""
    w = b[0] | (b[1] << 8)
    return (w & 0xD000) == 0x8000 and (w & 0x2C07) != 0


def reference_corpus(rng):
    bl = []
    for w in range(0, 65536, 16):
        b = [w & 255, w >> 8]
        if _is32_guess(w):
            x = rng.choice([0, 1, 0x1234, 0x8000, 0xFFFF, rng.randrange(65536)])
            b += [x & 255, x >> 8]
        bl.append(b)
    return bl


def llvm_crosscheck(ctx, byte_lists, rng):
    import os
    if not os.path.exists(isagen.LLVM_MC):
        ctx.note("llvm-mc-14 not installed: Avr.tla not cross-checked")
        return
    emitted = sorted({tuple(b) for b in byte_lists if len(b) in (2, 4)})
    if len(emitted) > 3000:     # the reference disassembler is slow to start and to warn: a seeded sample is enough here
        emitted = rng.sample(emitted, 3000)
    uniq = sorted(set(emitted) | {tuple(b) for b in reference_corpus(rng)})
    skipped = [b for b in uniq if _crashes_llvm14(b)]
    uniq = [b for b in uniq if not _crashes_llvm14(b)]
    dis = []
    for k in range(0, len(uniq), 4000):
        dis += isagen.disassemble(TRIPLE, [list(b) for b in uniq[k:k + 4000]], ([0x00, 0x00], "nop"))
    recs = []
    crashed = 0
    for b, text in zip(uniq, dis):
        if text is False:
            crashed += 1
            continue
        if text is None:
            recs.append({"t": "enc", "isa": ISA, "mn": "invalid", "ops": [], "pc": 0, "out": {"ok": True, "exc": "", "bytes": list(b)},
                         "text": "<invalid>", "key": bytes(b).hex()})
            continue
        t = tokenize(text)
        if t is None:
            continue
        mn, ops = t
        if mn == "rcall" and [o[0] for o in ops] == ["i"]:
            ops = [["x", 0, "raw field"]]      # LLVM 14 prints the raw 12-bit field of rcall, not a displacement: not comparable
        recs.append({"t": "enc", "isa": ISA, "mn": mn, "ops": ops, "pc": 0, "out": {"ok": True, "exc": "", "bytes": list(b)},
                     "text": text, "key": bytes(b).hex()})
    verdicts = isagen.judge(ctx, "Avr_Eval", recs, ["RefInvalid", "SyntaxKnown", "RefAgrees"],
                            "spec validation: Avr.Decode against llvm-mc", count=False)
    unknown = differ = invdiff = 0
    suspects, seen = [], set()
    for r, clause in verdicts:
        if r["key"] in seen:
            continue
        seen.add(r["key"])
        if clause == "SyntaxKnown":
            unknown += 1
        elif clause == "RefInvalid":
            invdiff += 1
        else:
            differ += 1
            suspects.append((r["key"], "differs", r["text"]))
    agree = len(recs) - unknown - differ - invdiff
    for h, mine_, ref in suspects[:20]:
        print("SPEC-SUSPECT property=%s case=avr-bytes:%s specification %s llvm-mc=%r" % (ctx.prop, h, mine_, ref))
    ctx.note("spec validation (avr): Avr.Decode agrees with llvm-mc-14 --triple=avr on %d of %d byte strings (%d printed in a "
             "syntax outside the compared one: LLVM 14's experimental AVR disassembler prints '<unknown>' for branch targets, "
             "the raw field for rcall and numbers for pointer registers; %d differ; %d defined here / invalid there: it does not know ld / st through X, "
             "-Y, -Z and others; %d byte strings not given to it because it crashes on ldd / std with a displacement, %d more "
             "crashed)" % (agree, len(recs), unknown, differ, invdiff, len(skipped), crashed))
    ctx.cov.setdefault("spec_validation_small_isas", {})[ISA] = {
        "reference": "llvm-mc-14 " + " ".join(TRIPLE), "agree": agree, "differ": differ,
        "not_compared": unknown + len(skipped) + crashed, "invalid_for_reference_only": invdiff}


# ---------------------------------------------------------------- the avr part of engine C08
def c08_part(ctx, thorough):
    """C08 for ppci.arch.avr.  Returns True when a replay was this part's."""
    mine = isagen.mine(ctx, "C08:%s:" % ISA)
    if mine is False:
        return False
    ctx.assume("avr: lexical tokenisation of the printed text (harness/avrgen.py: tokenize), register names r<n> -> n, pair "
               "names r<n+1>:r<n> -> n, W -> 24, X / Y / Z -> 26 / 28 / 30; for label operands the harness resolves the label "
               "to a byte address it chose (the label token carries it)")
    ctx.cov["rule_avr"] = (
        "every concrete instruction class of get_arch('avr').isa (the word pseudo-instructions addw, ldiw, ... are not "
        "registered in the isa and have no counterpart in the manual: not judged) x {every register r0..r31 / every pair in "
        "every register slot (ppci refuses the ones outside the slot's class), the diagonal, boundary immediates / "
        "displacements / I/O and data addresses / label distances and addresses enumerated by TLC (Avr_MC.Table)}; bytes = "
        "encode() + the instruction's own relocation applied (thorough: every register pair of two-register classes, every "
        "register x extreme operand values, seeded random operands and distances, and the assembler on the printed text of "
        "label-free lines); TLC: Core(Decode(bytes)) = Core(Asm(printed text)); distinct = distinct (class, path, printed "
        "text, label address)")
    fams = sorted(LAWS)
    table = isagen.laws_and_table(ctx, "Avr_MC", LAWS, fams if mine is None else [], thorough and mine is None, WHAT,
                                  workers=8 if mine is None else 2)
    rng = isagen.own_rng(ctx, 8515)
    rig = isagen.Rig() if thorough else None
    recs, skipped = enc_records(table, rng, thorough, rig)
    acc = sum(n for k, n in skipped.items() if k.endswith("out-of-range operand accepted"))
    rej = sum(n for k, n in skipped.items() if ":rejected:" in k)
    nenc = sum(n for k, n in skipped.items() if ":not encodable:" in k)
    ctx.note("avr: %d instance(s) rejected by ppci at construction (a register outside the slot's class), %d in-range "
             "instance(s) printed but refused by encode() / the relocation, %d out-of-range operand value(s) accepted by "
             "ppci (C10's question, not judged here)" % (rej, nenc, acc))
    recs = isagen.restrict(ctx, recs)
    for r in recs:
        ctx.count(r["key"])
    for r in recs[:: max(1, len(recs) // 2)][:2]:
        ctx.sample({"key": r["key"], "bytes": r["out"]["bytes"]})
    verdicts = isagen.judge(ctx, "Avr_Eval", recs, ["EncodingAgrees", "SyntaxKnown"], "E: C08 records (avr)")
    unknown = 0
    for rec, clause in verdicts:
        if clause == "SyntaxKnown":
            unknown += 1
        else:
            ctx.violation(rec["key"], "avr: bytes %s do not decode to the printed '%s' [clause %s]" % (
                bytes(rec["out"]["bytes"]).hex(), rec["text"], clause), {"record": dict(rec), "clause": clause})
    if unknown:
        ctx.note("%d avr instance(s) printed in a syntax outside the modelled assembly: no verdict" % unknown)
    if thorough and mine is None:
        llvm_crosscheck(ctx, [r["out"]["bytes"] for r in recs if r["out"]["ok"]], rng)
    return mine is True
