"""C08 (and for mips C07) for get_arch('mips').isa: front end of harness/riscgen.py (tla/Mips.tla)."""
from . import riscgen


def c08_part(ctx, thorough):
    """True only when ctx.only is a replay of one of this part's cases (key C08:mips:...)."""
    return riscgen.c08_part(ctx, thorough, "mips")


def c07_part(ctx, thorough):
    """True only when ctx.only is a replay of one of this part's cases (key C07:mips:...)."""
    return riscgen.c07_part(ctx, thorough, "mips")
