"""Instance generator and observers shared by the mips / or1k / microblaze parts of C08 (and the mips part of
C07): harness/mipsgen.py, harness/or1kgen.py and harness/mbgen.py are thin front ends of this module.

Python here only (a) enumerates instances of ppci's instruction classes (every register in every register slot,
boundary immediates / displacements / label addresses from TLC's tables (idiom G, tla/Risc3_MC.tla)), (b) drives
the real code -- Instruction.encode(), str(instruction), the instruction's own relocation, render() of macro
instructions, the assembler and the linker -- and records what it did, (c) tokenises printed text lexically
(register name -> number is the only interpretation).  The verdicts are TLC's (tla/Risc3_Eval.tla over
tla/Mips.tla, tla/Or1k.tla, tla/MicroBlaze.tla).

The three parts share two TLC runs per check (one M + G run, one E run): the first part that is called does the
work for all three instruction sets and the others return at once (TLC start-up dominates the quick tier)."""
import io
import json
import os
import random
import re
import subprocess

from . import tlc as tlcmod
from . import tlcclean

CFG = "INIT Init\nNEXT Next\nCHECK_DEADLOCK FALSE\n"
LABEL = "L_t"
ISAS = ("mips", "or1k", "microblaze")
LAWS = {"mips.w": ["MipsOneFormat", "MipsReencode", "MipsFields"], "mips.ln": ["MipsLine"], "mips.sx": ["MipsSignExt"],
        "or1k.w": ["Or1kOneFormat", "Or1kReencode", "Or1kFields"], "or1k.ln": ["Or1kLine"], "or1k.hl": ["Or1kHiLo"],
        "mb.w": ["MbOneFormat", "MbReencode", "MbFields"], "mb.ln": ["MbLine"], "mb.pre": ["MbPrefix"]}
PLACE = {"mips": 0x00040000, "or1k": 0x10000000, "microblaze": 0x40000000}


# ---------------------------------------------------------------- idioms M and G
def laws_and_tables(ctx, fams, deep, workers=8):
    """Idiom M (laws of the three ISA models on the families `fams`) + idiom G (boundary tables) in one TLC run.
    A failing law is a defect of the specification itself: machinery failure."""
    out = os.path.join(ctx.workdir, "risc3_gen.json")
    invs = [i for f in fams for i in LAWS[f]]
    cfg = "CONSTANT Deep = %s\nCONSTANT Fams = {%s}\n" % ("TRUE" if deep else "FALSE", ", ".join('"%s"' % f for f in fams))
    cfg += CFG + "".join("INVARIANT %s\n" % x for x in invs)
    res = ctx.tlc("Risc3_MC", cfg, label="M: laws of Mips.tla / Or1k.tla / MicroBlaze.tla on %s (+ G: boundary tables)" % " ".join(fams),
                  env={"OUT_FILE": out}, workers=workers, coverage=False)
    for e in res.errors:
        raise tlcmod.MachineryError("a law of Mips.tla / Or1k.tla / MicroBlaze.tla fails in the specification itself: %s\n%s" % (
            e, e.text[:1500]))
    tlcclean.clean(res, "Risc3_MC")
    try:
        with open(out) as f:
            t = json.load(f)
    except Exception as e:
        raise tlcmod.MachineryError("Risc3_MC wrote no table: %s" % e)
    os.unlink(out)
    return t


# ---------------------------------------------------------------- lexer
_MIPS_ABI = ["zero", "at", "v0", "v1", "a0", "a1", "a2", "a3", "t0", "t1", "t2", "t3", "t4", "t5", "t6", "t7",
             "s0", "s1", "s2", "s3", "s4", "s5", "s6", "s7", "t8", "t9", "k0", "k1", "gp", "sp", "fp", "ra"]
_REGNAMES = {"mips": dict({n: k for k, n in enumerate(_MIPS_ABI)}, s8=30), "or1k": {}, "microblaze": {}}
_TOK = re.compile(r"\s*(?:(\$?[A-Za-z_][A-Za-z_0-9.]*|\$\d+)|([+-]?\s*(?:0x[0-9a-fA-F]+|\d+))|(.))")


def _signed32(v):
    if -(1 << 31) <= v < (1 << 31):
        return v
    if v < (1 << 32):
        return v - (1 << 32)
    return None


def regnum(isa, word):
    """Register name -> number (None: not a register name)."""
    lw = word.lower().lstrip("$")
    m = re.match(r"^r?(\d+)$", lw) if word.startswith("$") else re.match(r"^r(\d+)$", lw)
    if m and int(m.group(1)) < 32:
        return int(m.group(1))
    return _REGNAMES[isa].get(lw)


def tokenize(isa, text):
    """'lw a1, 4(r7)' -> ('lw', [['r',5,'a1'], ['i',4,''], ['(',0,''], ['r',7,'r7'], [')',0,'']]).
    Purely lexical; ',' and blanks are dropped; integers are read as 32-bit two's complement."""
    text = text.strip()
    m = re.match(r"^([A-Za-z_.][A-Za-z_0-9.]*)", text)
    if not m:
        return None
    mn = m.group(1).lower()
    rest = text[m.end():]
    ops = []
    pos = 0
    while pos < len(rest):
        t = _TOK.match(rest, pos)
        if not t:
            break
        pos = t.end()
        if t.group(1):
            w = t.group(1)
            n = regnum(isa, w)
            if n is not None:
                ops.append(["r", n, w])
            elif w.lower() in ("hi", "lo"):
                ops.append(["w", 0, w.lower()])
            elif w.startswith("L_"):
                ops.append(["l", 0, w])
            else:
                ops.append(["x", 0, w])
        elif t.group(2):
            lit = t.group(2).replace(" ", "")
            v = _signed32(int(lit, 16) if "x" in lit.lower() else int(lit, 10))
            if v is None:
                return None
            ops.append(["i", v, ""])
        else:
            ch = t.group(3)
            if ch in ", \t":
                continue
            if ch in "()":
                ops.append([ch, 0, ""])
            else:
                ops.append(["x", 0, ch])
    return mn, ops


def hpattern(ops):
    return "".join(o[0] for o in ops)


# ---------------------------------------------------------------- classes
def _instr_module(isa):
    import importlib
    return importlib.import_module("ppci.arch.%s.instructions" % isa)


def isa_classes(isa):
    """[(name, cls)] concrete instruction classes with a syntax of get_arch(isa).isa that are defined by
    ppci.arch.<isa> (the generic data directives db / dw / dd ... are not instructions of the ISA)."""
    from ppci.api import get_arch
    src = get_arch(isa).isa
    out, seen, count = [], set(), {}
    for c in src.instructions:
        if getattr(c, "syntax", None) is None or id(c) in seen:
            continue
        seen.add(id(c))
        if not getattr(c, "__module__", "").startswith("ppci.arch.%s" % isa):
            continue
        k = count.get(c.__name__, 0)
        count[c.__name__] = k + 1
        out.append((c.__name__ if k == 0 else "%s#%d" % (c.__name__, k + 1), c))
    return out


_REGCACHE = {}


def reg(isa, n):
    """The register object with number n (mips defines only 13 of its 32 registers: the others are made here,
    named r<n> as ppci names its own)."""
    key = (isa, n)
    if key in _REGCACHE:
        return _REGCACHE[key]
    import importlib
    rm = importlib.import_module("ppci.arch.%s.registers" % isa)
    cls = {"mips": "MipsRegister", "or1k": "Or1kRegister", "microblaze": "MicroBlazeRegister"}[isa]
    rc = getattr(rm, cls)
    r = None
    for cand in list(getattr(rc, "registers", [])) + [getattr(rm, "r0", None), getattr(rm, "R0", None)]:
        if cand is not None and getattr(cand, "num", None) == n and isinstance(cand, rc):
            r = cand
            break
    if r is None:
        r = rc("r%d" % n if isa != "microblaze" else "R%d" % n, num=n)
    _REGCACHE[key] = r
    return r


def slots(isa, cls):
    """Operand slots in constructor order: [(name, kind)], kind in r register, i int, l label,
    m or1k immediate constructor (Immediate / hi(label) / lo(label))."""
    res = []
    for a in cls.syntax.formal_arguments:
        c = a._cls
        if c is int:
            k = "i"
        elif c is str:
            k = "l"
        elif isinstance(c, tuple):
            k = "m"
        elif isinstance(c, type) and c.__name__.endswith("Register"):
            k = "r"
        else:
            k = "?"
        res.append((a._name, k))
    return res


def build(isa, cls, values):
    return cls(*[values[n] for n, _ in slots(isa, cls)])


def _imm_m(isa, kind, v):
    I = _instr_module(isa)
    if kind == "hi":
        return I.HighAddressImmediate(LABEL)
    if kind == "lo":
        return I.LowAddressImmediate(LABEL)
    return I.Immediate(v)


def _dummy(isa, cls):
    vals = {}
    k = 0
    for n, kind in slots(isa, cls):
        if kind == "r":
            vals[n] = reg(isa, 5 + k)
            k += 1
        elif kind == "i":
            vals[n] = 4
        elif kind == "l":
            vals[n] = LABEL
        elif kind == "m":
            vals[n] = _imm_m(isa, "", 4)
    return vals


def surface(isa, cls, vals=None):
    try:
        t = tokenize(isa, str(build(isa, cls, vals or _dummy(isa, cls))))
        return (t[0], hpattern(t[1])) if t else None
    except Exception:
        return None


def _row(table, isa, mn, pat):
    for r in table[isa]["rows"]:
        if mn in r["mns"] and r["pat"] == pat:
            return r
    return None


# ---------------------------------------------------------------- instance enumeration
QUICK_REGS = [0, 1, 2, 5, 8, 15, 16, 23, 29, 30, 31]
PAIR_REGS = [0, 1, 2, 4, 7, 8, 15, 16, 27, 29, 30, 31]      # thorough: every pair of these in the one- and two-register classes


def enumerate_instances(isa, cname, cls, table, rng, thorough=False):
    """[{values, sym, place, tag, valid}] for one class.  `valid` (from TLC's `inside` flags) only selects the
    instances that get a verdict request; out-of-range ones are only counted when ppci accepts them."""
    sl = slots(isa, cls)
    if any(k == "?" for _, k in sl):
        return []
    sf = surface(isa, cls)
    if sf is None:
        return []
    mn, pat = sf
    row = _row(table, isa, mn, pat)
    regs = [n for n, k in sl if k == "r"]
    ints = [n for n, k in sl if k == "i"]
    labs = [n for n, k in sl if k == "l"]
    mims = [n for n, k in sl if k == "m"]
    place0 = PLACE[isa]
    absolute = (isa == "mips") or (isa == "microblaze" and pat == "rrl")     # the row's values are label addresses
    out = []

    def base():
        v = _dummy(isa, cls)
        pool = [9, 10, 11, 12] if isa != "mips" else [9, 6, 7, 8]
        k = 0
        for n, kind in sl:
            if kind == "r":
                # mips lui: ppci's extra rs operand is register 0 in the sweeps of the real operands
                v[n] = reg(isa, 0) if (isa == "mips" and mn == "lui" and n == "rs") else reg(isa, pool[k % 4])
                k += 1
        good = [x["v"] for x in row["vals"] if x["inside"]] if row else []
        for n in ints:
            v[n] = 4 if (row is None or (row["lo"] <= 4 <= row["hi"])) else (good[0] if good else 0)
        return v

    def add(vals, tag, sym=None, place=None, valid=True):
        # which register operands coincide, e.g. "aba": first = third (describes the input; part of the case key)
        names, sig = [], ""
        for n in regs:
            k = getattr(vals[n], "num", None)
            if k not in names:
                names.append(k)
            sig += "abcdef"[names.index(k)]
        if sig:
            tag = "%s/%s" % (tag, sig)
        haslab = bool(labs) or any(getattr(vals[n], "label", None) is not None for n in mims)
        if haslab and sym is None:
            place = place0
            sym = (place0 + 0x40) if not absolute else 0x1040
        out.append({"values": dict(vals), "sym": sym or 0, "place": place if place is not None else (place0 if haslab else 0),
                    "tag": tag, "valid": valid})

    b = base()
    # quick tier: a sample of the register numbers in which every bit of the 5-bit field takes both values next to
    # all-ones / all-zeroes neighbours; thorough: all 32
    sweep = range(32) if thorough else QUICK_REGS
    for n in regs:
        for r in sweep:
            x = dict(b)
            x[n] = reg(isa, r)
            add(x, "%s:sweep" % n)
    if len(regs) > 1:
        for r in sweep:
            x = dict(b)
            for n in regs:
                x[n] = reg(isa, r)
            add(x, "diag")
    for n in ints:
        if row is not None:
            for val in row["vals"]:
                x = dict(b)
                x[n] = val["v"]
                add(x, "%s:%s" % (n, "in" if val["inside"] else "out"), valid=val["inside"])
            if thorough:
                for _ in range(12):
                    x = dict(b)
                    x[n] = rng.randrange(row["lo"], row["hi"] + 1)
                    for m in regs:
                        x[m] = reg(isa, rng.randrange(32))
                    add(x, "%s:random" % n)
        else:
            for v in (0, 1, 4, 255, 256, -1):
                x = dict(b)
                x[n] = v
                add(x, "%s:probe" % n, valid=False)
    for n in mims:                                      # or1k: Immediate(v) | hi(label) | lo(label)
        irow = row or _row(table, isa, mn, pat.replace("w(l)", "i"))
        if irow is not None:
            for val in irow["vals"]:
                x = dict(b)
                x[n] = _imm_m(isa, "", val["v"])
                add(x, "%s:%s" % (n, "in" if val["inside"] else "out"), valid=val["inside"])
            if thorough:
                for _ in range(12):
                    x = dict(b)
                    x[n] = _imm_m(isa, "", rng.randrange(irow["lo"], irow["hi"] + 1))
                    add(x, "%s:random" % n)
        for kind in ("hi", "lo"):
            for s in table[isa].get("hilo", []):
                x = dict(b)
                x[n] = _imm_m(isa, kind, 0)
                add(x, "%s:%s" % (n, kind), sym=s, place=place0)
    if labs:
        vals = row["vals"] if row is not None else [{"v": 0x40, "inside": True}]
        places = [place0]
        if isa == "mips":
            places = [0x1000, 0x0FFFFFF8]                # j / jal: region 0 (the label address is the row's value)
        for place in places:
            for val in vals:
                if absolute:
                    sym = val["v"]
                elif isa == "microblaze":
                    sym = place + 4 + val["v"]           # displacement from the branch after the imm prefix
                else:
                    sym = place + val["v"]
                if sym < 0 or sym >= (1 << 31):
                    continue
                add(b, "%s:%s:%x" % (labs[0], "in" if val["inside"] else "out", place), sym=sym, place=place, valid=val["inside"])
        if isa == "mips":                               # another 256 MB region
            for val in vals:
                if val["inside"] and val["v"] + 0x70000000 < (1 << 31):
                    add(b, "%s:in:region7" % labs[0], sym=0x70000000 + val["v"], place=0x70001000)
    if not sl:
        add(b, "plain")
    if thorough and regs:
        import itertools
        if len(regs) <= 2:
            combos = list(itertools.product(PAIR_REGS, repeat=len(regs)))
        else:
            combos = [tuple(rng.randrange(32) for _ in regs) for _ in range(64)]
        for combo in combos:
            x = dict(b)
            for n, r in zip(regs, combo):
                x[n] = reg(isa, r)
            add(x, "regs")
    return out


# ---------------------------------------------------------------- observers
def _ok(b):
    return {"ok": True, "exc": "", "bytes": list(b)}


def _err(e):
    return {"ok": False, "exc": e if isinstance(e, str) else type(e).__name__, "bytes": []}


def observe_encode(ins, sym, place):
    """encode() -- for a macro instruction the encodings of its rendering -- with the instruction's own
    relocation(s) applied for the symbol value `sym` and the instruction at address `place`."""
    try:
        try:
            data = bytearray(ins.encode())
        except RuntimeError:
            if not hasattr(ins, "render"):
                raise
            data = bytearray(b"".join(bytes(p.encode()) for p in ins.render()))   # macro instruction
        rels = list(ins.relocations())
        for r in rels:
            size = r.size()
            off = r.offset
            if off < 0 or off + size > len(data):
                return _err("relocation window %d+%d outside %d bytes" % (off, size, len(data)))
            new = r.apply(sym, bytearray(data[off:off + size]), place + off)
            if len(new) != size:
                return _err("relocation changed the size")
            data[off:off + size] = new
        return _ok(data)
    except Exception as e:  # the outcome class is the observation
        return _err(e)


class AsmRig:
    """One Architecture per isa, re-used; assembles single lines / links against a placed symbol."""

    def __init__(self):
        self.arch = {}

    def get(self, isa):
        if isa not in self.arch:
            from ppci.api import get_arch
            self.arch[isa] = get_arch(isa)
        return self.arch[isa]

    def assemble(self, isa, lines, section="code"):
        from ppci.binutils.objectfile import ObjectFile
        from ppci.binutils.outstream import BinaryOutputStream
        from ppci.common import DiagnosticsManager
        arch = self.get(isa)
        obj = ObjectFile(arch)
        ostream = BinaryOutputStream(obj)
        ostream.select_section(section)
        diag = DiagnosticsManager()
        a = arch.assembler
        a.prepare()
        for ln in lines:
            a.assemble(ln, ostream, diag)
        a.flush()
        return obj

    def observe_asm(self, isa, text):
        try:
            return _ok(bytes(self.assemble(isa, [text]).get_section("code").data))
        except Exception as e:
            return _err(e)

    def observe_link(self, isa, text, place, sym):
        from ppci.api import link
        from ppci.binutils.layout import Layout
        try:
            o1 = self.assemble(isa, ["global " + LABEL, text])
            o2 = self.assemble(isa, ["global " + LABEL, LABEL + ":", "dd 0"], section="tgt")
            n = len(o1.get_section("code").data)
            lay = Layout.load(io.StringIO(
                "MEMORY code LOCATION=0x%x SIZE=0x100 { SECTION(code) }\nMEMORY tgt LOCATION=0x%x SIZE=0x100 { SECTION(tgt) }\n"
                % (place, sym)))
            o = link([o1, o2], lay)
            sec = o.get_section("code")
            if sec.address != place or o.get_section("tgt").address != sym:
                return _err("placement")
            return _ok(bytes(sec.data[:n]))
        except Exception as e:
            return _err(e)


def instances(isa, table, rng, thorough, skipped, only_class=None):
    for cname, cls in isa_classes(isa):
        if only_class is not None and cname != only_class:
            continue
        seen = set()
        for inst in enumerate_instances(isa, cname, cls, table, rng, thorough):
            try:
                ins = build(isa, cls, inst["values"])
                text = str(ins)
            except Exception as e:  # construction / printing failed: nothing is printed, nothing to compare
                k = "%s:%s" % (cname, type(e).__name__)
                skipped[k] = skipped.get(k, 0) + 1
                continue
            sig = (text, inst["sym"], inst["place"])
            if sig in seen:
                continue
            seen.add(sig)
            yield cname, inst, ins, text


def record(prop, isa, cname, path, text, out, sym, place, tag):
    t = tokenize(isa, text)
    if t is None:
        return None
    mn, ops = t
    haslab = any(o[0] == "l" for o in ops)
    suffix = "@%x<-%x" % (sym, place) if haslab else ""
    return {"t": "enc", "isa": isa, "key": "%s:%s:%s:%s:%s:%s%s" % (prop, isa, cname, path, tag, text, suffix), "mn": mn,
            "ops": ops, "sym": sym, "pc": place, "out": out, "path": path, "text": text, "cls": cname, "tag": tag}


def enc_records(prop, isa, table, rng, thorough=False, paths=("enc",), rig=None, only_class=None):
    recs = []
    skipped = {}
    for cname, inst, ins, text in instances(isa, table, rng, thorough, skipped, only_class):
        haslab = LABEL in text
        if hasattr(ins, "render") and not haslab:
            # a macro without a label operand (mips nop = add r0, r0, r0): its rendering consists of instructions that are
            # judged as classes of their own; whether the rendering "is" the macro is a question of semantics, not of encoding
            skipped["%s:macro without label operand" % cname] = skipped.get("%s:macro without label operand" % cname, 0) + 1
            continue
        if not inst["valid"]:
            o = observe_encode(ins, inst["sym"], inst["place"])
            if o["ok"]:
                k = "%s:out-of-range operand accepted" % cname
                skipped[k] = skipped.get(k, 0) + 1
            continue
        for path in paths:
            if path != "enc" and inst["tag"].startswith(("regs", "diag")):
                continue                                # the register products go through encode() only
            if path == "enc":
                out = observe_encode(ins, inst["sym"], inst["place"])
            elif haslab:
                out = rig.observe_link(isa, text, inst["place"], inst["sym"])
            else:
                out = rig.observe_asm(isa, text)
            r = record(prop, isa, cname, path, text, out, inst["sym"], inst["place"], inst["tag"])
            if r is None:
                skipped["%s:not tokenisable" % cname] = skipped.get("%s:not tokenisable" % cname, 0) + 1
                continue
            recs.append(r)
    return recs, skipped


def _nums(isa, regs):
    out = []
    for r in regs:
        n = regnum(isa, str(r))
        if n is not None:
            out.append(n)
    return out


def rw_records(prop, isa, table, rng, thorough=False, only_class=None):
    """Records (t = 'rw'): bytes of every in-range instance + the register sets ppci declares."""
    recs = []
    skipped = {}
    for cname, inst, ins, text in instances(isa, table, rng, thorough, skipped, only_class):
        if not inst["valid"]:
            continue
        try:
            uses = _nums(isa, ins.used_registers)
            defs = _nums(isa, ins.defined_registers)
            clob = _nums(isa, getattr(ins, "clobbers", []) or [])
        except Exception as e:
            skipped["%s:%s" % (cname, type(e).__name__)] = skipped.get("%s:%s" % (cname, type(e).__name__), 0) + 1
            continue
        out = observe_encode(ins, inst["sym"], inst["place"])
        if not out["ok"] or not out["bytes"]:
            k = "%s:%s" % (cname, "no bytes" if out["ok"] else "not encodable")
            skipped[k] = skipped.get(k, 0) + 1
            continue
        suffix = "@%x<-%x" % (inst["sym"], inst["place"]) if LABEL in text else ""
        recs.append({"t": "rw", "isa": isa, "key": "%s:%s:%s:%s:%s%s" % (prop, isa, cname, inst["tag"], text, suffix),
                     "bytes": out["bytes"], "uses": uses, "defs": defs, "clob": clob, "text": text, "cls": cname, "tag": inst["tag"]})
    return recs, skipped


# ---------------------------------------------------------------- judgement (TLC)
def judge(ctx, recs, invariants, label, workers=6):
    """Evaluate the records in tla/Risc3_Eval.tla; [(record, clause name)] for every violated invariant."""
    if not recs:
        return []
    slim = [{k: v for k, v in r.items() if k not in ("key", "text", "cls", "tag")} for r in recs]
    path = ctx.trace_file(slim, "risc3.json")
    cfg = CFG + "".join("INVARIANT %s\n" % inv for inv in invariants)
    res = ctx.tlc("Risc3_Eval", cfg, label=label, env={"TRACE_FILE": path}, continue_=True, workers=workers, coverage=False)
    os.unlink(path)
    tlcclean.clean(res, "Risc3_Eval", expect_states=len(recs) + 1 + (len(recs) + 15) // 16)
    ctx.cov["traces_validated_against_impl"] += len(recs)
    out, seen = [], set()
    for e in res.errors:
        idx = e.last.get("idx")
        if not isinstance(idx, int) or not 1 <= idx <= len(recs):
            raise tlcmod.MachineryError("TLC error without record index in Risc3_Eval: %s\n%s" % (e, e.text[:2000]))
        if (idx, e.name) in seen:
            continue
        seen.add((idx, e.name))
        out.append((recs[idx - 1], e.name))
    return out


# ---------------------------------------------------------------- spec validation against llvm-mc (mips only)
LLVM_MC = "/usr/bin/llvm-mc-14"
_MIPS_BR = re.compile(r"^(beq|bne|beql|bnel|blez|bgtz|blezl|bgtzl|bltz|bgez|bltzl|bgezl|bltzal|bgezal|bltzall|bgezall|j|jal)$")


def disassemble_mips(byte_lists):
    text = "".join("[" + " ".join("0x%02x" % v for v in b) + "]\n" for b in byte_lists)
    p = subprocess.run([LLVM_MC, "--disassemble", "--triple=mipsel", "-mcpu=mips32r2"], input=text, capture_output=True, text=True,
                       timeout=600)
    bad = {int(m.group(1)) for m in re.finditer(r"<stdin>:(\d+):\d+: warning: invalid instruction encoding", p.stderr)}
    lines = [ln.strip() for ln in p.stdout.splitlines() if ln.strip() and not ln.strip().startswith(".")]
    res = []
    k = 0
    for n in range(1, len(byte_lists) + 1):
        if n in bad or k >= len(lines):
            res.append(None)
            continue
        res.append(" ".join(lines[k].replace("\t", " ").split()))
        k += 1
    if k != len(lines):
        return None
    return res


def llvm_crosscheck_mips(ctx, byte_lists, limit=40000):
    """Compare Mips.Decode with llvm-mc on the same bytes: the reference's text is read by the specification's
    own Asm and TLC checks Decode(bytes) = Asm(text) (NOTE / SPEC-SUSPECT lines only, never the exit status)."""
    if not os.path.exists(LLVM_MC):
        ctx.note("llvm-mc-14 not installed: Mips.tla not cross-checked")
        return
    uniq = sorted({tuple(b) for b in byte_lists if len(b) == 4})[:limit]
    dis = disassemble_mips([list(b) for b in uniq])
    if dis is None:
        ctx.note("llvm-mc output could not be aligned with its input: Mips.tla not cross-checked")
        return
    place = 0x1000
    recs = []
    for b, text in zip(uniq, dis):
        base = {"t": "ref", "isa": "mips", "sym": 0, "pc": place, "out": {"ok": True, "exc": "", "bytes": list(b)}, "key": bytes(b).hex()}
        if text is None:
            recs.append(dict(base, mn="invalid", ops=[], text="<invalid>"))
            continue
        t = tokenize("mips", text)
        if t is None:
            continue
        mn, ops = t
        sym = 0
        if _MIPS_BR.match(mn) and ops and ops[-1][0] == "i":       # the reference prints the branch offset / jump target
            # llvm-mc prints the target of j / jal and, for branches, target - address of the branch (offset + 4)
            sym = ops[-1][1] if mn in ("j", "jal") else place + ops[-1][1]
            ops[-1] = ["l", 0, "L_ref"]
        recs.append(dict(base, mn=mn, ops=ops, sym=sym, text=text))
    slim = [{k: v for k, v in r.items() if k not in ("key", "text")} for r in recs]
    path = ctx.trace_file(slim, "ref.json")
    cfg = CFG + "INVARIANT RefInvalid\nINVARIANT RefSyntaxKnown\nINVARIANT RefAgrees\n"
    res = ctx.tlc("Risc3_Eval", cfg, label="spec validation: Mips.Decode against llvm-mc", env={"TRACE_FILE": path},
                  continue_=True, workers=6, coverage=False)
    os.unlink(path)
    tlcclean.clean(res, "Risc3_Eval")
    unknown = differ = invdiff = 0
    unknown_mn = {}
    seen = set()
    suspects = []
    for e in res.errors:
        idx = e.last.get("idx")
        if not isinstance(idx, int) or idx in seen:
            continue
        seen.add(idx)
        r = recs[idx - 1]
        if e.name == "RefSyntaxKnown":
            unknown += 1
            unknown_mn[r["mn"]] = unknown_mn.get(r["mn"], 0) + 1
        elif e.name == "RefInvalid":
            invdiff += 1
            suspects.append((r["key"], "defined in the specification", "invalid for llvm-mc"))
        else:
            differ += 1
            suspects.append((r["key"], "differs", r["text"]))
    invalid_both = sum(1 for k, r in enumerate(recs, start=1) if r["mn"] == "invalid" and k not in seen)
    agree = len(recs) - unknown - differ - invdiff
    for h, mine, ref in suspects[:20]:
        print("SPEC-SUSPECT property=%s case=mips-bytes:%s specification %s llvm-mc=%r" % (ctx.prop, h, mine, ref))
    ctx.note("spec validation (mips): Mips.Decode agrees with llvm-mc-14 --triple=mipsel -mcpu=mips32r2 on %d of %d byte strings "
             "(%d of them invalid / reserved on both sides; %d outside the compared syntax, %d differ, %d defined here / invalid "
             "there); or1k and microblaze are not registered targets of LLVM 14 and GNU objdump here is x86-only: Or1k.tla and "
             "MicroBlaze.tla are not cross-checked" % (agree, len(recs), invalid_both, unknown, differ, invdiff))
    ctx.cov.setdefault("spec_validation_risc3", {})["mips"] = {
        "reference": "llvm-mc-14 --triple=mipsel -mcpu=mips32r2", "agree": agree, "invalid_on_both_sides": invalid_both,
        "differ": differ, "not_compared": unknown, "invalid_for_reference_only": invdiff,
        "not_compared_mnemonics": dict(sorted(unknown_mn.items(), key=lambda kv: -kv[1])[:12])}


def reference_corpus_mips(rng, n=12000):
    bl = []
    for _ in range(n):
        w = rng.randrange(1 << 32)
        k = rng.random()
        if k < 0.35:                                    # SPECIAL with mostly-zero must-be-zero fields
            w = (w & 0x03FFFFFF) & ~(rng.choice([0, 0x7C0, 0x7C0, 0xFFC0]))
        elif k < 0.45:
            w = (w & 0x03FFFFFF) | (1 << 26)
        elif k < 0.55:
            w = (w & 0x03FFFFFF) | (28 << 26)
            if rng.random() < 0.7:
                w &= ~0x7C0
        bl.append([w & 255, (w >> 8) & 255, (w >> 16) & 255, w >> 24])
    return bl


# ---------------------------------------------------------------- the parts of the engines C08 / C07
def _owner(ctx, prop):
    """None: normal run; otherwise the isa whose case is replayed ('' when it is somebody else's)."""
    if ctx.only is None:
        return None
    key = str(ctx.only.get("key", ""))
    for isa in ISAS:
        if key.startswith("%s:%s:" % (prop, isa)):
            return isa
    return ""


def _rng(ctx, salt):
    return random.Random(ctx.seed * 7919 + salt)        # own stream: other parts' draws stay what they were


WHAT = {"EncodingAgrees": "bytes %s do not decode to the printed '%s'", "Encodes": "in-range instance '%s' is not encoded (%s)"}


def c08_part(ctx, thorough, isa):
    """C08 for get_arch(isa).isa, isa in mips / or1k / microblaze.  Returns True when a replay was this part's."""
    owner = _owner(ctx, "C08")
    if owner is not None:
        if owner != isa:
            return False
        todo = [isa]
    else:
        if getattr(ctx, "_risc3_c08_done", False):
            return False
        ctx._risc3_c08_done = True
        todo = list(ISAS)
    ctx.assume("mips / or1k / microblaze: lexical tokenisation of the printed text (harness/riscgen.py: tokenize), register names "
               "r<n> / R<n> and the MIPS ABI names (zero at v0 v1 a0-a3 t0-t9 s0-s8 k0 k1 gp sp fp ra) -> numbers, integers read "
               "as 32-bit two's complement; for label operands the harness resolves the label to an address it chose; the bytes "
               "of ppci's mips target are read little-endian, or1k and microblaze big-endian (as the targets declare)")
    ctx.cov["rule_risc3"] = (
        "every concrete instruction class of get_arch('mips' | 'or1k' | 'microblaze').isa defined by ppci.arch.<isa> x {each "
        "register slot swept over all 32 register numbers (the others at distinct defaults), diagonal, every boundary immediate / "
        "shift amount / displacement / label address enumerated by TLC (Risc3_MC tables: in-range ones are judged, out-of-range "
        "ones only counted when accepted), or1k hi() / lo() of boundary addresses, microblaze label macros (imm prefix + "
        "instruction) at displacements where a 16-bit half carries}; bytes = encode() / render() (+ own relocation applied; "
        "thorough: all 32 register numbers per slot, every pair of 12 register numbers in the one- / two-register classes, 64 seeded random "
        "triples, random immediates, and the assembler + linker on the printed text of the sweeps); TLC: "
        "Core(Decode(bytes)) = Core(Asm(printed text)); distinct = distinct (class, path, printed text, label address, place)")
    if owner is None:
        fams = list(LAWS) if thorough else ["mips.w", "mips.ln", "mips.sx", "or1k.w", "or1k.ln", "or1k.hl", "mb.w", "mb.ln", "mb.pre"]
        table = laws_and_tables(ctx, fams, thorough)
    else:
        table = laws_and_tables(ctx, [], False, workers=2)
    rng = _rng(ctx, 31)
    rig = AsmRig() if thorough else None
    recs = []
    for which in todo:
        r, skipped = enc_records("C08", which, table, rng, thorough, paths=("enc", "asm") if thorough else ("enc",), rig=rig)
        recs += r
        acc = sum(n for k, n in skipped.items() if k.endswith("out-of-range operand accepted"))
        mac = sum(n for k, n in skipped.items() if k.endswith("macro without label operand"))
        rej = sum(n for k, n in skipped.items()) - acc - mac
        ctx.note("%s: %d instance(s) rejected by ppci at construction, %d out-of-range operand value(s) accepted by ppci (C10's "
                 "question, not judged here), %d instance(s) of macros without a label operand (their rendering is judged as the "
                 "classes it consists of)" % (which, rej, acc, mac))
    if owner is not None:
        want = str(ctx.only.get("key", "")).split("::")[0]
        recs = [r for r in recs if r["key"] == want]
        if not recs:
            ctx.note("replay: the case %s was not regenerated (different tier / seed / tree?)" % ctx.only.get("key"))
    for r in recs:
        ctx.count(r["key"])
    for r in recs[:: max(1, len(recs) // 3)][:3]:
        ctx.sample({"key": r["key"], "bytes": r["out"]["bytes"]})
    verdicts = judge(ctx, recs, ["EncodingAgrees", "Encodes", "SyntaxKnown", "InRange"], "E: C08 records (%s)" % ", ".join(todo))
    unknown, outr = {}, {}
    for rec, clause in verdicts:
        if clause == "SyntaxKnown":
            unknown[rec["isa"]] = unknown.get(rec["isa"], 0) + 1
        elif clause == "InRange":
            outr[rec["isa"]] = outr.get(rec["isa"], 0) + 1
        elif clause == "Encodes":
            ctx.violation(rec["key"], "%s: in-range instance '%s' is not encoded (%s) [clause Encodes]" % (
                rec["isa"], rec["text"], rec["out"]["exc"] or "no bytes"), {"record": dict(rec), "clause": clause})
        else:
            ctx.violation(rec["key"], "%s: bytes %s do not decode to the printed '%s' [clause %s]" % (
                rec["isa"], bytes(rec["out"]["bytes"]).hex(), rec["text"], clause), {"record": dict(rec), "clause": clause})
    for which, n in sorted(unknown.items()):
        ctx.note("%d %s instance(s) printed in a syntax outside the modelled assembly: no verdict" % (n, which))
    for which, n in sorted(outr.items()):
        ctx.note("%d %s instance(s) with an operand outside the instruction's range (label address / displacement): no verdict "
                 "(C10's question)" % (n, which))
    if thorough and owner is None:
        bl = [r["out"]["bytes"] for r in recs if r["isa"] == "mips" and r["out"]["ok"]] + reference_corpus_mips(rng)
        llvm_crosscheck_mips(ctx, bl)
    return owner == isa


C07_WHAT = {
    "StaticWrites": "writes a register it does not declare as written or clobbered",
    "LinkWrite": "writes the link register without declaring it",
    "StaticReads": "reads a register it does not declare as read",
}


def c07_part(ctx, thorough, isa="mips"):
    """C07 for ppci.arch.mips: the register sets of the emitted instruction against the declared ones."""
    owner = _owner(ctx, "C07")
    if owner is not None and owner != isa:
        return False
    ctx.assume("mips: declared registers are read by their printed name; r0 is hard-wired (never counts), HI / LO and the pc "
               "are not general-purpose registers")
    ctx.cov["rule_mips"] = (
        "every concrete instruction class of ppci.arch.mips x {register sweeps over all 32 numbers per slot, diagonal, in-range "
        "boundary immediates / label addresses from TLC}; ppci supplies the bytes and used_registers / defined_registers / "
        "clobbers; TLC decodes the bytes (Mips.Decode) and decides Writes within declared writes + clobbers (the link register of "
        "jal / jalr as a clause of its own), Reads within declared reads; distinct = distinct (class, printed text, label address)")
    table = laws_and_tables(ctx, ["mips.w"] if owner is None else [], thorough and owner is None, workers=8 if owner is None else 2)
    rng = _rng(ctx, 37)
    recs, skipped = rw_records("C07", isa, table, rng, thorough)
    n = sum(v for k, v in skipped.items() if k.endswith("not encodable") or k.endswith("no bytes"))
    if n:
        ctx.note("%s: %d in-range instance(s) without bytes (not encodable), not judged" % (isa, n))
    if owner is not None:
        want = str(ctx.only.get("key", "")).split("::")[0]
        recs = [r for r in recs if r["key"] == want]
        if not recs:
            ctx.note("replay: the case %s was not regenerated (different tier / seed / tree?)" % ctx.only.get("key"))
    for r in recs:
        ctx.count(r["key"])
    for r in recs[:: max(1, len(recs) // 3)][:3]:
        ctx.sample({k: r[k] for k in ("key", "bytes", "uses", "defs", "clob")})
    verdicts = judge(ctx, recs, ["StaticWrites", "LinkWrite", "StaticReads", "Decodable"], "E: C07 records (%s)" % isa)
    undec = 0
    for rec, clause in verdicts:
        if clause == "Decodable":
            undec += 1
            continue
        ctx.violation("%s::%s" % (rec["key"], clause),
                      "%s: '%s' (%s) %s; declared reads %s writes %s clobbers %s [clause %s]" % (
                          rec["isa"], rec["text"], bytes(rec["bytes"]).hex(), C07_WHAT[clause], rec["uses"], rec["defs"],
                          rec["clob"], clause), {"record": dict(rec), "clause": clause})
    if undec:
        ctx.note("%d %s instance(s) whose bytes are reserved encodings or outside the decoder's subset: no register sets to "
                 "compare (C08 judges the encoding)" % (undec, isa))
    return owner == isa
