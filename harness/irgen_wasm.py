"""IR modules for C23, built directly through ppci.ir inside the subset ppci2wasm accepts
(ppci/wasm/ppci2wasm.py: binop_map, cast_operators, cast_operators2, NEG*, loads/stores, CJMP*, CALL).

Three families, all returning (key, make, fn, param types, externs):
  patterns(...)  one tiny function per (type, operator, observer): the result of `a op b` is observed through
                 a widening cast, a comparison, a division, a shift or a store, which makes the upper bits of
                 the wasm value that carries a narrow / unsigned IR value visible;
  arith(rng)     random straight-line / diamond / counted-loop code over the supported operators and casts,
                 globals with initial data, direct calls, calls through function pointers, external calls;
  cfg(rng)       random control-flow graphs ("soup of blocks": forward edges, guarded back edges, jumps into
                 loop bodies, multiple exits) whose blocks update an accumulator in memory: ppci must either
                 structure them correctly or raise.
`make()` builds a fresh ppci.ir.Module every time (ir_to_wasm may modify its input).
"""
BITS = {"i8": 8, "u8": 8, "i16": 16, "u16": 16, "i32": 32, "u32": 32, "i64": 64, "u64": 64}
NARROW = ["i8", "u8", "i16", "u16", "i32", "u32"]
ALL = NARROW + ["i64", "u64"]
OPS32 = ["+", "-", "*", "/", "%", "&", "|", "^", ">>", "<<"]
OPS64 = ["+", "-", "*", "/", "%"]
# casts ppci2wasm knows (source, destination)
CASTS = {("i64", "u64"), ("u64", "i64"), ("u32", "i64"), ("u32", "u64"), ("u64", "u32"), ("i64", "u32"),
         ("i32", "i8"), ("i8", "i32"), ("i32", "u8"), ("u8", "i32"), ("i32", "i16"), ("i16", "i32"), ("i32", "u16"),
         ("u16", "i32"), ("i32", "i64"), ("i32", "u64"), ("u64", "i32"), ("i64", "i32"), ("i32", "u32"), ("u32", "i32"),
         ("u32", "i8"), ("i8", "u32"), ("u32", "u8"), ("u8", "u32"), ("u32", "i16"), ("i16", "u32"), ("u32", "u16"),
         ("u16", "u32")}


def ops_of(t):
    return OPS64 if BITS[t] == 64 else OPS32


def _mod(name="m"):
    from ppci import ir
    from ppci.binutils.debuginfo import DebugDb

    return ir.Module(name, debug_db=DebugDb())


def _fn(m, name, rty, ptys):
    from ppci import ir

    f = ir.Function(name, ir.Binding.GLOBAL, getattr(ir, rty)) if rty else ir.Procedure(name, ir.Binding.GLOBAL)
    m.add_function(f)
    ps = []
    for k, t in enumerate(ptys):
        p = ir.Parameter("p%d" % k, getattr(ir, t))
        f.add_parameter(p)
        ps.append(p)
    e = ir.Block(name + "_entry")
    f.add_block(e)
    f.entry = e
    return f, e, ps


def wrapv(v, t):
    b = BITS[t]
    v &= (1 << b) - 1
    if t[0] == "i" and v >> (b - 1):
        v -= 1 << b
    return v


# ---------------------------------------------------------------------------------------------------
# patterns
# ---------------------------------------------------------------------------------------------------
def _widen_target(t):
    """A type the value of type t can be cast to by ppci2wasm such that upper bits become visible."""
    return {"i8": "i32", "u8": "i32", "i16": "i32", "u16": "i32", "i32": "i64", "u32": "u64", "i64": "u64", "u64": "i64"}[t]


def make_pattern(t, op, obs):
    from ppci import ir

    T = getattr(ir, t)
    m = _mod()
    g = None
    if obs == "store":
        # (not initialised: at the pinned commit ir_to_wasm rejects every module with initial data)
        g = ir.Variable("g", ir.Binding.GLOBAL, 16, 8)
        m.add_variable(g)
    rty = {"widen": _widen_target(t), "cmp": "i32", "div": t, "shr": t, "store": "i64", "ret": t}[obs]
    f, e, (a, b) = _fn(m, "f", rty, [t, t])
    bb = b
    if op in ("/", "%"):
        one = ir.Const(1, "one", T)
        e.add_instruction(one)
        bb = ir.Binop(b, "|", one, "nz", T)
        e.add_instruction(bb)
    if op in ("<<", ">>"):
        k = ir.Const(7 if BITS[t] == 8 else 15, "mask", T)
        e.add_instruction(k)
        bb = ir.Binop(b, "&", k, "sh", T)
        e.add_instruction(bb)
    v = ir.Binop(a, op, bb, "v", T) if op != "neg" else ir.Unop("-", a, "v", T)
    e.add_instruction(v)
    if obs == "ret":
        e.add_instruction(ir.Return(v))
    elif obs == "widen":
        w = ir.Cast(v, "w", getattr(ir, rty))
        e.add_instruction(w)
        e.add_instruction(ir.Return(w))
    elif obs == "cmp":
        yes, no = ir.Block("f_yes"), ir.Block("f_no")
        f.add_block(yes)
        f.add_block(no)
        e.add_instruction(ir.CJump(v, "<", b, yes, no))
        c1 = ir.Const(1, "c1", ir.i32)
        yes.add_instruction(c1)
        yes.add_instruction(ir.Return(c1))
        c0 = ir.Const(0, "c0", ir.i32)
        no.add_instruction(c0)
        no.add_instruction(ir.Return(c0))
    elif obs == "div":
        three = ir.Const(3, "three", T)
        e.add_instruction(three)
        q = ir.Binop(v, "/", three, "q", T)
        e.add_instruction(q)
        e.add_instruction(ir.Return(q))
    elif obs == "shr":
        two = ir.Const(2, "two", T)
        e.add_instruction(two)
        q = ir.Binop(v, ">>", two, "q", T)
        e.add_instruction(q)
        e.add_instruction(ir.Return(q))
    elif obs == "store":
        # the value is stored into the middle of an initialised global; neighbours must be untouched
        off = ir.Const(4, "off", ir.ptr)
        e.add_instruction(off)
        p = ir.Binop(g, "+", off, "p", ir.ptr)
        e.add_instruction(p)
        e.add_instruction(ir.Store(v, p))
        x = ir.Load(g, "x", ir.i64)
        e.add_instruction(x)
        e.add_instruction(ir.Return(x))
    return m


def patterns(rng, thorough=False):
    out = []
    for t in ALL:
        for op in ops_of(t) + (["neg"] if t[0] == "i" else []):
            observers = ["ret", "widen", "cmp", "store"]
            if BITS[t] < 64:
                observers += ["div", "shr"]
            if not thorough:
                # quick tier: every (type, operator) once, the observer rotating
                observers = [observers[(len(out) + ops_of(t).index(op) if op != "neg" else 0) % len(observers)],
                             "widen" if t in ("i8", "u8", "i16", "u16", "u32") and op in ("+", "*", "-", "<<") else None]
                observers = [o for o in dict.fromkeys(observers) if o]
            for obs in observers:
                key = "pat:%s:%s:%s" % (t, {"+": "add", "-": "sub", "*": "mul", "/": "div", "%": "rem", "&": "and",
                                              "|": "or", "^": "xor", ">>": "shr", "<<": "shl", "neg": "neg"}[op], obs)
                out.append((key, (lambda t=t, op=op, obs=obs: make_pattern(t, op, obs)), "f", [t, t], []))
    return out


def cond_patterns():
    """f(a, b) = (a cond b) ? 1 : 0 for every integer type and comparison."""
    from ppci import ir

    out = []
    names = {"==": "eq", "!=": "ne", "<": "lt", ">": "gt", "<=": "le", ">=": "ge"}
    for t in ALL:
        for cond in names:
            def make(t=t, cond=cond):
                m = _mod()
                f, e, (a, b) = _fn(m, "f", "i32", [t, t])
                yes, no = ir.Block("f_yes"), ir.Block("f_no")
                f.add_block(yes)
                f.add_block(no)
                e.add_instruction(ir.CJump(a, cond, b, yes, no))
                c1 = ir.Const(1, "c1", ir.i32)
                yes.add_instruction(c1)
                yes.add_instruction(ir.Return(c1))
                c0 = ir.Const(0, "c0", ir.i32)
                no.add_instruction(c0)
                no.add_instruction(ir.Return(c0))
                return m

            out.append(("cond:%s:%s" % (t, names[cond]), make, "f", [t, t], []))
    return out


def layout_patterns():
    """Globals of mixed size and alignment (a misaligning byte object, then a word, then small objects, a string
    literal): every object is initialised, overwritten and read back; no two objects may share bytes."""
    from ppci import ir

    shapes = {
        "c_i_c": [(1, 1), (4, 4), (1, 1)],
        "c3_i_h_c_l": [(3, 1), (4, 4), (2, 2), (1, 1), (8, 8)],
        "c_h_c_l_c_i": [(1, 1), (2, 2), (1, 1), (8, 8), (1, 1), (4, 4)],
        "i_c_c_i": [(4, 4), (1, 1), (1, 1), (4, 4)],
    }
    lty = {1: "i8", 2: "i16", 4: "i32", 8: "i64"}
    out = []
    for name, shape in shapes.items():
        for with_literal in (False, True):
            def make(shape=shape, with_literal=with_literal):
                m = _mod("layout")
                gs = []
                for k, (size, align) in enumerate(shape):
                    init = bytes(((17 * k + 5 + j) & 0x7F) or 1 for j in range(size))
                    g = ir.Variable("v%d" % k, ir.Binding.GLOBAL, size, align, value=(init,))
                    m.add_variable(g)
                    gs.append((g, size))
                f, e, (a, b) = _fn(m, "f", "i64", ["i32", "i32"])
                n = [0]

                def nm(p):
                    n[0] += 1
                    return "%s%d" % (p, n[0])

                acc = ir.Const(0, "acc0", ir.i64)
                e.add_instruction(acc)

                def fold(acc, v, t):
                    if t != "i64":
                        if t != "i32":
                            v = ir.Cast(v, nm("w"), ir.i32)
                            e.add_instruction(v)
                        v = ir.Cast(v, nm("x"), ir.i64)
                        e.add_instruction(v)
                    k131 = ir.Const(131, nm("k"), ir.i64)
                    e.add_instruction(k131)
                    t1 = ir.Binop(acc, "*", k131, nm("m"), ir.i64)
                    e.add_instruction(t1)
                    t2 = ir.Binop(t1, "+", v, nm("s"), ir.i64)
                    e.add_instruction(t2)
                    return t2

                def load_all(acc):
                    for g, size in gs:
                        if size == 3:
                            for j in range(3):
                                addr = g
                                if j:
                                    off = ir.Const(j, nm("o"), ir.ptr)
                                    e.add_instruction(off)
                                    addr = ir.Binop(g, "+", off, nm("p"), ir.ptr)
                                    e.add_instruction(addr)
                                v = ir.Load(addr, nm("l"), ir.i8)
                                e.add_instruction(v)
                                acc = fold(acc, v, "i8")
                        else:
                            v = ir.Load(g, nm("l"), getattr(ir, lty[size]))
                            e.add_instruction(v)
                            acc = fold(acc, v, lty[size])
                    return acc

                acc = load_all(acc)                      # the initial values
                if with_literal:
                    lit = ir.LiteralData(bytes([0x41, 0x42, 0x43, 0x44, 0x45]), "lit")
                    e.add_instruction(lit)
                    la = ir.AddressOf(lit, "la")
                    e.add_instruction(la)
                    v = ir.Load(la, nm("l"), ir.i8)
                    e.add_instruction(v)
                    acc = fold(acc, v, "i8")
                for k, (g, size) in enumerate(gs):       # overwrite every object with a value derived from a / b
                    src = a if k % 2 == 0 else b
                    kk = ir.Const(k + 1, nm("k"), ir.i32)
                    e.add_instruction(kk)
                    val = ir.Binop(src, "+", kk, nm("v"), ir.i32)
                    e.add_instruction(val)
                    if size == 8:
                        val = ir.Cast(val, nm("c"), ir.i64)
                        e.add_instruction(val)
                    elif size in (1, 2, 3):
                        val = ir.Cast(val, nm("c"), ir.i8 if size != 2 else ir.i16)
                        e.add_instruction(val)
                    e.add_instruction(ir.Store(val, g))
                    acc = load_all(acc)                  # nothing else may have changed
                e.add_instruction(ir.Return(acc))
                return m

            out.append(("layout:%s%s" % (name, ":lit" if with_literal else ""), make, "f", ["i32", "i32"], []))
    return out


def fptr_patterns():
    """The addresses of three functions taken at several sites in interleaved order; every site is called through."""
    from ppci import ir

    orders = {"abc_bac_cab": ["abc", "bac", "cab"], "aab_cba_bcc": ["aab", "cba", "bcc"], "cba_abc": ["cba", "abc"],
              "bab_aba_cac": ["bab", "aba", "cac"]}
    out = []
    for name, rounds in orders.items():
        def make(rounds=rounds):
            m = _mod("fptr")
            fns = {}
            for nm_, op, k in (("a", "+", 1), ("b", "*", 3), ("c", "-", 7)):
                f, e, (x,) = _fn(m, "f" + nm_, "i32", ["i32"])
                c = ir.Const(k, "k", ir.i32)
                e.add_instruction(c)
                v = ir.Binop(x, op, c, "v", ir.i32)
                e.add_instruction(v)
                e.add_instruction(ir.Return(v))
                fns[nm_] = f
            f, cur, (sel, x) = _fn(m, "f", "i32", ["i32", "i32"])
            n = [0]

            def nm(p):
                n[0] += 1
                return "%s%d" % (p, n[0])

            def blk(p):
                b = ir.Block("f_" + nm(p))
                f.add_block(b)
                return b

            val = x
            for rnd in rounds:
                b0, t1, b1, b2, join = blk("s0"), blk("t"), blk("s1"), blk("s2"), blk("j")
                zero = ir.Const(0, nm("z"), ir.i32)
                cur.add_instruction(zero)
                cur.add_instruction(ir.CJump(sel, "==", zero, b0, t1))
                one = ir.Const(1, nm("o"), ir.i32)
                t1.add_instruction(one)
                t1.add_instruction(ir.CJump(sel, "==", one, b1, b2))
                for b in (b0, b1, b2):
                    b.add_instruction(ir.Jump(join))
                phi = ir.Phi(nm("fp"), ir.ptr)
                join.add_instruction(phi)
                for b, ch in zip((b0, b1, b2), rnd):
                    phi.set_incoming(b, fns[ch])
                val = ir.FunctionCall(phi, [val], nm("r"), ir.i32)
                join.add_instruction(val)
                cur = join
            cur.add_instruction(ir.Return(val))
            return m

        out.append(("fptr:" + name, make, "f", ["i32", "i32"], []))
    return out


def cast_patterns():
    """f(a) = cast chain; every cast ppci2wasm knows, observed through a further widening where possible."""
    from ppci import ir

    out = []
    for src, dst in sorted(CASTS):
        def make(src=src, dst=dst):
            m = _mod()
            wide = _widen_target(dst) if (dst, _widen_target(dst)) in CASTS else dst
            f, e, (a,) = _fn(m, "f", wide, [src])
            v = ir.Cast(a, "v", getattr(ir, dst))
            e.add_instruction(v)
            if wide != dst:
                v = ir.Cast(v, "w", getattr(ir, wide))
                e.add_instruction(v)
            e.add_instruction(ir.Return(v))
            return m

        out.append(("cast:%s:%s" % (src, dst), make, "f", [src], []))
    return out


# ---------------------------------------------------------------------------------------------------
# random arithmetic / structured programs
# ---------------------------------------------------------------------------------------------------
class Arith:
    def __init__(self, rng, ir, m, fn, helpers, externs, globs, table):
        self.r = rng
        self.ir = ir
        self.m = m
        self.fn = fn
        self.helpers = helpers
        self.externs = externs
        self.globs = globs
        self.table = table
        self.n = 0
        self.avail = {}
        self.block = None

    def name(self, p="v"):
        self.n += 1
        return "%s%d" % (p, self.n)

    def emit(self, i):
        self.block.add_instruction(i)
        return i

    def ty(self, t):
        return getattr(self.ir, t)

    def new_block(self, p):
        b = self.ir.Block("%s_%s" % (self.fn.name, self.name(p)))
        self.fn.add_block(b)
        return b

    def add(self, v, t):
        self.avail.setdefault(t, []).append(v)
        return v

    def const(self, t, v=None):
        r = self.r
        if v is None:
            c = r.random()
            if c < 0.45:
                v = r.randrange(0, 9)
            elif c < 0.8:
                v = r.choice([-1, -2, -7, 127, 128, 255, 256, 1000, -1000, 32767, 32768, 65535, 65536, 0x7FFFFFFF,
                              -0x80000000, 0xFFFFFFFF])
            else:
                v = r.getrandbits(BITS[t])
        return self.emit(self.ir.Const(wrapv(v, t), self.name("c"), self.ty(t)))

    def value(self, t):
        vs = self.avail.get(t)
        if vs and self.r.random() < 0.75:
            return self.r.choice(vs)
        srcs = [s for s in self.avail if self.avail[s] and (s, t) in CASTS]
        if srcs and self.r.random() < 0.6:
            s = self.r.choice(srcs)
            return self.add(self.emit(self.ir.Cast(self.r.choice(self.avail[s]), self.name("k"), self.ty(t))), t)
        return self.const(t)

    def step(self):
        r, ir = self.r, self.ir
        t = r.choice(ALL)
        c = r.random()
        if c < 0.45:
            op = r.choice(ops_of(t))
            a, b = self.value(t), self.value(t)
            if op in ("/", "%"):
                b = self.emit(ir.Binop(b, "|", self.const(t, 1), self.name("nz"), self.ty(t))) if BITS[t] < 64 else \
                    self.const(t, r.choice([1, 3, 7, -5, 1000]))
            if op in ("<<", ">>"):
                b = self.emit(ir.Binop(b, "&", self.const(t, 7 if BITS[t] == 8 else 15), self.name("sh"), self.ty(t)))
            self.add(self.emit(ir.Binop(a, op, b, self.name(), self.ty(t))), t)
        elif c < 0.5 and t[0] == "i":
            self.add(self.emit(ir.Unop("-", self.value(t), self.name("n"), self.ty(t))), t)
        elif c < 0.62:
            pairs = [(s, d) for (s, d) in CASTS if self.avail.get(s)]
            if pairs:
                s, d = r.choice(sorted(pairs))
                self.add(self.emit(ir.Cast(r.choice(self.avail[s]), self.name("k"), self.ty(d))), d)
        elif c < 0.78 and self.globs:
            g, et, cnt = r.choice(self.globs)
            k = r.randrange(cnt)
            addr = g
            if k:
                off = self.emit(ir.Const(k * (BITS[et] // 8), self.name("off"), ir.ptr))
                addr = self.emit(ir.Binop(g, "+", off, self.name("ea"), ir.ptr))
            if r.random() < 0.5:
                self.emit(ir.Store(self.value(et), addr))
            else:
                self.add(self.emit(ir.Load(addr, self.name("gl"), self.ty(et))), et)
        elif c < 0.86 and self.helpers:
            h, ptys, rty = r.choice(self.helpers)
            args = [self.value(p) for p in ptys]
            if rty:
                self.add(self.emit(ir.FunctionCall(h, args, self.name("call"), self.ty(rty))), rty)
            else:
                self.emit(ir.ProcedureCall(h, args))
        elif c < 0.91 and self.table:
            # call through a function pointer chosen by a value
            (h1, h2), ptys, rty = r.choice(self.table)
            sel_t = r.choice(["i32", "u8", "i16"])
            yes, no, join = self.new_block("py"), self.new_block("pn"), self.new_block("pj")
            self.emit(ir.CJump(self.value(sel_t), r.choice(["<", "==", ">="]), self.value(sel_t), yes, no))
            args = [self.value(p) for p in ptys]          # defined before the split: dominate the join
            self.block = yes
            self.emit(ir.Jump(join))
            self.block = no
            self.emit(ir.Jump(join))
            self.block = join
            phi = self.emit(ir.Phi(self.name("fp"), ir.ptr))
            phi.set_incoming(yes, h1)
            phi.set_incoming(no, h2)
            self.add(self.emit(ir.FunctionCall(phi, args, self.name("icall"), self.ty(rty))), rty)
        elif self.externs:
            x, ptys, rty = r.choice(self.externs)
            args = [self.value(p) for p in ptys]
            if rty:
                self.add(self.emit(ir.FunctionCall(x, args, self.name("xc"), self.ty(rty))), rty)
            else:
                self.emit(ir.ProcedureCall(x, args))
        else:
            self.add(self.const(t), t)

    def snapshot(self):
        return {t: list(v) for t, v in self.avail.items()}

    def region(self, depth, budget):
        r = self.r
        while budget[0] > 0:
            budget[0] -= 1
            c = r.random()
            if c < 0.6 or depth >= 2:
                self.step()
            elif c < 0.8:
                self.diamond(depth, budget)
            elif c < 0.95:
                self.loop(depth, budget)
            else:
                self.early_return()
            if r.random() < 0.1:
                break

    def cjump(self, yes, no):
        t = self.r.choice(ALL)
        self.emit(self.ir.CJump(self.value(t), self.r.choice(["==", "<", ">", ">=", "<=", "!="]), self.value(t), yes, no))

    def diamond(self, depth, budget):
        ir = self.ir
        then_b, else_b, join = self.new_block("then"), self.new_block("else"), self.new_block("join")
        self.cjump(then_b, else_b)
        saved = self.snapshot()
        self.block = then_b
        self.region(depth + 1, budget)
        then_end, then_avail = self.block, self.snapshot()
        self.emit(ir.Jump(join))
        self.avail = {t: list(v) for t, v in saved.items()}
        self.block = else_b
        self.region(depth + 1, budget)
        else_end, else_avail = self.block, self.snapshot()
        self.emit(ir.Jump(join))
        self.avail = saved
        self.block = join
        for _ in range(self.r.randrange(0, 3)):
            t = self.r.choice(ALL)
            if then_avail.get(t) and else_avail.get(t):
                phi = ir.Phi(self.name("phi"), self.ty(t))
                join.add_instruction(phi)
                phi.set_incoming(then_end, self.r.choice(then_avail[t]))
                phi.set_incoming(else_end, self.r.choice(else_avail[t]))
                self.add(phi, t)

    def loop(self, depth, budget):
        ir = self.ir
        head, body, exit_b = self.new_block("lh"), self.new_block("lb"), self.new_block("lx")
        pre = self.block
        zero = self.const("i32", 0)
        limit = self.const("i32", self.r.randrange(1, 4))
        one = self.const("i32", 1)
        acc_t = self.r.choice(ALL)
        acc0 = self.value(acc_t)
        self.emit(ir.Jump(head))
        self.block = head
        cnt = self.emit(ir.Phi(self.name("cnt"), ir.i32))
        acc = self.emit(ir.Phi(self.name("acc"), self.ty(acc_t)))
        self.emit(ir.CJump(cnt, "<", limit, body, exit_b))
        saved = self.snapshot()
        self.add(cnt, "i32")
        self.add(acc, acc_t)
        self.block = body
        self.region(depth + 1, budget)
        nxt = self.emit(ir.Binop(cnt, "+", one, self.name("inc"), ir.i32))
        acc2 = self.emit(ir.Binop(acc, self.r.choice(["+", "-", "*"]), self.value(acc_t), self.name("acc"), self.ty(acc_t)))
        body_end = self.block
        self.emit(ir.Jump(head))
        cnt.set_incoming(pre, zero)
        cnt.set_incoming(body_end, nxt)
        acc.set_incoming(pre, acc0)
        acc.set_incoming(body_end, acc2)
        self.avail = saved
        self.add(cnt, "i32")
        self.add(acc, acc_t)
        self.block = exit_b

    def early_return(self):
        ret_b, cont = self.new_block("ret"), self.new_block("cont")
        self.cjump(ret_b, cont)
        saved = self.snapshot()
        self.block = ret_b
        self.finish()
        self.avail = saved
        self.block = cont

    def finish(self):
        ir = self.ir
        if isinstance(self.fn, ir.Function):
            self.emit(ir.Return(self.value(self.fn.return_ty.name)))
        else:
            self.emit(ir.Exit())

    def build(self, ptys, budget):
        ir = self.ir
        entry = self.new_block("entry")
        self.fn.entry = entry
        self.block = entry
        for k, t in enumerate(ptys):
            p = ir.Parameter("p%d" % k, self.ty(t))
            self.fn.add_parameter(p)
            self.add(p, t)
        self.region(0, [budget])
        self.finish()


def gen_arith(rng, budget=12):
    from ppci import ir

    m = _mod("arith")
    globs = []
    for k in range(rng.randrange(1, 4)):
        et = rng.choice(ALL)
        cnt = rng.choice([1, 2, 4])
        size = BITS[et] // 8
        init = bytes(rng.randrange(256) for _ in range(size * cnt)) if rng.random() < 0.25 else None
        g = ir.Variable("g%d" % k, ir.Binding.GLOBAL, size * cnt, size, value=init)
        m.add_variable(g)
        globs.append((g, et, cnt))
    externs = []
    if rng.random() < 0.6:
        x = ir.ExternalFunction("ext_f", [ir.i32], ir.i32)
        m.add_external(x)
        externs.append((x, ["i32"], "i32"))
    if rng.random() < 0.3:
        x = ir.ExternalProcedure("ext_p", [ir.i32, ir.i64])
        m.add_external(x)
        externs.append((x, ["i32", "i64"], None))
    helpers, table = [], []
    nf = rng.randrange(1, 4)
    main = None
    for k in range(nf):
        last = k == nf - 1
        ptys = [rng.choice(ALL) for _ in range(rng.randrange(1 if last else 0, 4))]
        rty = None if (not last and rng.random() < 0.2) else rng.choice(ALL)
        name = "f%d" % k if last else "h%d" % k
        fn = ir.Function(name, ir.Binding.GLOBAL, getattr(ir, rty)) if rty else ir.Procedure(name, ir.Binding.GLOBAL)
        m.add_function(fn)
        Arith(rng, ir, m, fn, list(helpers), externs, globs, list(table)).build(ptys, budget if last else max(4, budget // 2))
        helpers.append((fn, ptys, rty))
        if rty and not last and rng.random() < 0.7:
            # a sibling with the same signature so that a pointer can select between the two
            sib = ir.Function(name + "b", ir.Binding.GLOBAL, getattr(ir, rty))
            m.add_function(sib)
            Arith(rng, ir, m, sib, [], externs, globs, []).build(ptys, 4)
            helpers.append((sib, ptys, rty))
            table.append(((fn, sib), ptys, rty))
        if last:
            main = (name, ptys)
    return m, {"main": main[0], "params": main[1], "externs": [(x[0].name, x[2]) for x in externs]}


# ---------------------------------------------------------------------------------------------------
# control-flow soup
# ---------------------------------------------------------------------------------------------------
def gen_cfg(rng, nblocks=None):
    """Blocks 1..n in a fixed order; block k does  acc = acc * 3 + k  (acc in an alloca), stores acc to the global
    `trace` sometimes, then: jumps forward, or branches on a parameter bit / on acc, or (a latch) decrements a counter
    in memory and branches back while it is positive.  Forward edges may enter loop bodies from outside
    (irreducible graphs) and leave them from the middle (multi-exit loops)."""
    from ppci import ir

    n = nblocks or rng.randrange(3, 8)
    m = _mod("cfg")
    trace = ir.Variable("trace", ir.Binding.GLOBAL, 8, 4)
    m.add_variable(trace)
    f, entry, (p0, p1) = _fn(m, "f", "i32", ["i32", "i32"])
    a_acc = ir.Alloc("a_acc", 4, 4)
    entry.add_instruction(a_acc)
    acc_p = ir.AddressOf(a_acc, "acc_p")
    entry.add_instruction(acc_p)
    a_cnt = ir.Alloc("a_cnt", 4, 4)
    entry.add_instruction(a_cnt)
    cnt_p = ir.AddressOf(a_cnt, "cnt_p")
    entry.add_instruction(cnt_p)
    entry.add_instruction(ir.Store(p1, acc_p))
    c0 = ir.Const(rng.randrange(2, 5), "budget", ir.i32)
    entry.add_instruction(c0)
    entry.add_instruction(ir.Store(c0, cnt_p))
    blocks = []
    for k in range(1, n + 1):
        b = ir.Block("f_b%d" % k)
        f.add_block(b)
        blocks.append(b)
    exit_b = ir.Block("f_exit")
    f.add_block(exit_b)
    entry.add_instruction(ir.Jump(blocks[0]))
    nm = [0]

    def name(p):
        nm[0] += 1
        return "%s%d" % (p, nm[0])

    for k, b in enumerate(blocks):
        acc = ir.Load(acc_p, name("acc"), ir.i32)
        b.add_instruction(acc)
        three = ir.Const(3, name("c"), ir.i32)
        b.add_instruction(three)
        kk = ir.Const(k + 1, name("c"), ir.i32)
        b.add_instruction(kk)
        t1 = ir.Binop(acc, "*", three, name("t"), ir.i32)
        b.add_instruction(t1)
        t2 = ir.Binop(t1, "+", kk, name("t"), ir.i32)
        b.add_instruction(t2)
        b.add_instruction(ir.Store(t2, acc_p))
        if rng.random() < 0.3:
            b.add_instruction(ir.Store(t2, trace))
        later = blocks[k + 1:] + [exit_b]
        earlier = blocks[:k + 1]
        c = rng.random()
        if c < 0.3 and k > 0 or (c < 0.15):
            # latch: back edge while the counter is positive
            cnt = ir.Load(cnt_p, name("cnt"), ir.i32)
            b.add_instruction(cnt)
            one = ir.Const(1, name("c"), ir.i32)
            b.add_instruction(one)
            c2 = ir.Binop(cnt, "-", one, name("t"), ir.i32)
            b.add_instruction(c2)
            b.add_instruction(ir.Store(c2, cnt_p))
            zero = ir.Const(0, name("c"), ir.i32)
            b.add_instruction(zero)
            b.add_instruction(ir.CJump(c2, ">", zero, rng.choice(earlier), rng.choice(later)))   # distinct by construction
        elif c < 0.75:
            bit = ir.Const(1 << rng.randrange(0, 4), name("c"), ir.i32)
            b.add_instruction(bit)
            src = p0 if rng.random() < 0.7 else t2
            x = ir.Binop(src, "&", bit, name("t"), ir.i32)
            b.add_instruction(x)
            zero = ir.Const(0, name("c"), ir.i32)
            b.add_instruction(zero)
            yes = rng.choice(later)
            no = rng.choice([x_ for x_ in later if x_ is not yes] or [None])
            if no is None:
                b.add_instruction(ir.Jump(yes))
            else:
                b.add_instruction(ir.CJump(x, rng.choice(["==", "!="]), zero, yes, no))
        else:
            b.add_instruction(ir.Jump(rng.choice(later)))
    r = ir.Load(acc_p, "result", ir.i32)
    exit_b.add_instruction(r)
    exit_b.add_instruction(ir.Store(r, ir_add(exit_b, trace, 4)))
    exit_b.add_instruction(ir.Return(r))
    f.delete_unreachable()
    return m


def ir_add(block, base, off):
    from ppci import ir

    c = ir.Const(off, "off", ir.ptr)
    block.add_instruction(c)
    a = ir.Binop(base, "+", c, "addr", ir.ptr)
    block.add_instruction(a)
    return a
