"""Abstract Pascal programs for extension property X01: builders (the JSON that tla/PasSrc.tla reads), a renderer to
Pascal text, and a seeded generator of random programs.

The builders produce the AST in the exact shape PasSrc.tla interprets (values as 4-byte little-endian two's complement
words); fields the specification does not look at (`v`, `vals`, `tn`) carry what the renderer needs.  The renderer prints
the same AST as Pascal source; neither evaluates anything.
"""
MAXINT = 2147483647


def limbs(v, n=4):
    v &= (1 << (8 * n)) - 1
    return [(v >> (8 * k)) & 255 for k in range(n)]


# ------------------------------------------------------------------ types
INT = {"k": "int"}
BOOL = {"k": "bool"}
CHAR = {"k": "char"}
NONE = {"k": "none"}


def ENUM(name, vals):
    return {"k": "enum", "n": name, "card": len(vals), "vals": list(vals)}


def SUB(lo, hi):
    return {"k": "sub", "lo": limbs(lo), "hi": limbs(hi), "lov": lo, "hiv": hi}


def ARR(lo, hi, el):
    return {"k": "arr", "lo": lo, "hi": hi, "el": el}


def REC(name, fields):
    return {"k": "rec", "n": name, "fs": [{"n": n, "ty": t} for n, t in fields]}


def cls(t):
    return {"int": "int", "sub": "int", "bool": "bool", "char": "char"}.get(t["k"]) or ("enum:" + t["n"] if t["k"] == "enum" else "none")


# ------------------------------------------------------------------ expressions
def L(v):
    return {"k": "lit", "c": "int", "w": limbs(v), "v": v}


def BL(b):
    return {"k": "lit", "c": "bool", "w": limbs(1 if b else 0), "v": bool(b)}


def CL(ch):
    return {"k": "lit", "c": "char", "w": limbs(ord(ch)), "v": ch}


def EL(ty, name):
    return {"k": "lit", "c": "enum:" + ty["n"], "w": limbs(ty["vals"].index(name)), "v": name}


def V(n):
    return {"k": "var", "n": n}


def IDX(a, e):
    return {"k": "idx", "a": a, "e": e}


def FLD(r, f):
    return {"k": "fld", "r": r, "f": f}


def U(op, a):
    return {"k": "un", "op": op, "a": a}


def B(op, a, b):
    return {"k": "bin", "op": op, "a": a, "b": b}


def CALL(f, *args):
    return {"k": "call", "f": f, "args": list(args)}


def BI(f, a, card=0):
    return {"k": "bi", "f": f, "a": a, "card": card}


# ------------------------------------------------------------------ statements
def ASG(lhs, e):
    return {"k": "asg", "lhs": lhs, "e": e}


def RES(f, e):
    return {"k": "asg", "lhs": {"k": "result", "f": f}, "e": e}


def IF(c, t, f=()):
    return {"k": "if", "c": c, "t": list(t), "f": list(f)}


def WHILE(c, b):
    return {"k": "while", "c": c, "b": list(b)}


def REPEAT(b, c):
    return {"k": "repeat", "b": list(b), "c": c}


def FOR(v, a, b, body, up=True):
    return {"k": "for", "v": v, "a": a, "b": b, "up": bool(up), "body": list(body)}


def CASE(e, arms, els=None):
    return {"k": "case", "e": e, "arms": [{"vals": list(vs), "b": list(b)} for vs, b in arms], "haselse": els is not None,
            "els": list(els or [])}


def WRITE(*args, ln=False):
    out = []
    for a in args:
        if isinstance(a, tuple):
            out.append({"e": a[0], "hasw": True, "wd": a[1]})
        else:
            out.append({"e": a, "hasw": False, "wd": L(0)})
    return {"k": "write", "args": out, "ln": bool(ln)}


def P(n, ty, var=False):
    return {"n": n, "ty": ty, "var": bool(var)}


def PROC(n, params, locals_, body):
    return {"n": n, "kind": "proc", "params": list(params), "ret": NONE, "locals": [{"n": a, "ty": t} for a, t in locals_], "body": list(body)}


def FUNC(n, params, ret, locals_, body):
    return {"n": n, "kind": "func", "params": list(params), "ret": ret, "locals": [{"n": a, "ty": t} for a, t in locals_], "body": list(body)}


def PROG(globals_, subs, main, name="t"):
    return {"name": name, "globals": [{"n": a, "ty": t} for a, t in globals_], "subs": list(subs), "main": list(main)}


def to_src(prog):
    """The abstract program as PasSrc.tla reads it (the AST itself)."""
    return prog


# ------------------------------------------------------------------ renderer
def _tname(t, defs):
    k = t["k"]
    if k == "int":
        return "integer"
    if k == "bool":
        return "boolean"
    if k == "char":
        return "char"
    if k == "enum":
        name = t["n"]
        text = "(%s)" % ", ".join(t["vals"])
    elif k == "sub":
        name = "sr_%s_%s" % (str(t["lov"]).replace("-", "m"), str(t["hiv"]).replace("-", "m"))
        text = "%d..%d" % (t["lov"], t["hiv"])
    elif k == "arr":
        el = _tname(t["el"], defs)
        name = "ar_%s_%s_%s" % (str(t["lo"]).replace("-", "m"), str(t["hi"]).replace("-", "m"), el)
        text = "array[%d..%d] of %s" % (t["lo"], t["hi"], el)
    elif k == "rec":
        name = t["n"]
        text = "record %s end" % "; ".join("%s: %s" % (f["n"], _tname(f["ty"], defs)) for f in t["fs"])
    else:
        raise ValueError(k)
    if name not in defs:
        defs[name] = text
    return name


def rx(e):
    k = e["k"]
    if k == "lit":
        c, v = e["c"], e["v"]
        if c == "int":
            return str(v) if v >= 0 else "(-%d)" % -v
        if c == "bool":
            return "true" if v else "false"
        if c == "char":
            return "'%s'" % v
        return v
    if k == "var":
        return e["n"]
    if k == "idx":
        return "%s[%s]" % (e["a"], rx(e["e"]))
    if k == "fld":
        return "%s.%s" % (e["r"], e["f"])
    if k == "un":
        return "(not %s)" % rx(e["a"]) if e["op"] == "not" else "(%s%s)" % (e["op"], rx(e["a"]))
    if k == "bin":
        return "(%s %s %s)" % (rx(e["a"]), e["op"], rx(e["b"]))
    if k == "call":
        return e["f"] + ("(%s)" % ", ".join(rx(a) for a in e["args"]) if e["args"] else "")
    if k == "bi":
        return "%s(%s)" % (e["f"], rx(e["a"]))
    raise ValueError(k)


def rconst(e):
    c, v = e["c"], e["v"]
    if c == "int":
        return str(v)
    return rx(e)


def rstmts(ss, ind):
    return [ln for s in ss for ln in rstmt(s, ind)]


def rblock(ss, ind):
    return [" " * ind + "begin"] + _semi(ss, ind + 1) + [" " * ind + "end"]


def _semi(ss, ind):
    out = []
    for k, s in enumerate(ss):
        lines = rstmt(s, ind)
        if k < len(ss) - 1:
            lines[-1] += ";"
        out += lines
    return out


def rstmt(s, ind):
    sp = " " * ind
    k = s["k"]
    if k == "asg":
        lhs = s["lhs"]["f"] if s["lhs"]["k"] == "result" else rx(s["lhs"])
        return [sp + "%s := %s" % (lhs, rx(s["e"]))]
    if k == "call":
        return [sp + rx(s)]
    if k == "if":
        out = [sp + "if %s then" % rx(s["c"])] + rblock(s["t"], ind)
        if s["f"]:
            out += [sp + "else"] + rblock(s["f"], ind)
        return out
    if k == "while":
        return [sp + "while %s do" % rx(s["c"])] + rblock(s["b"], ind)
    if k == "repeat":
        return [sp + "repeat"] + _semi(s["b"], ind + 1) + [sp + "until %s" % rx(s["c"])]
    if k == "for":
        return [sp + "for %s := %s %s %s do" % (s["v"], rx(s["a"]), "to" if s["up"] else "downto", rx(s["b"]))] + rblock(s["body"], ind)
    if k == "case":
        out = [sp + "case %s of" % rx(s["e"])]
        for j, arm in enumerate(s["arms"]):
            out.append(sp + " %s:" % ", ".join(rconst(v) for v in arm["vals"]))
            blk = rblock(arm["b"], ind + 1)
            if j < len(s["arms"]) - 1 or s["haselse"]:
                blk[-1] += ";"
            out += blk
        if s["haselse"]:
            blk = rblock(s["els"], ind + 1)
            blk[-1] += ";"
            out += [sp + "else"] + blk
        return out + [sp + "end"]
    if k == "write":
        args = ", ".join(rx(a["e"]) + (":%s" % rx(a["wd"]) if a["hasw"] else "") for a in s["args"])
        name = "writeln" if s["ln"] else "write"
        return [sp + name + ("(%s)" % args if args else "")]
    raise ValueError(k)


def render(prog):
    defs = {}
    gl = ["  %s: %s;" % (g["n"], _tname(g["ty"], defs)) for g in prog["globals"]]
    subs = []
    for s in prog["subs"]:
        ps = "; ".join("%s%s: %s" % ("var " if p["var"] else "", p["n"], _tname(p["ty"], defs)) for p in s["params"])
        head = "%s %s%s%s;" % ("function" if s["kind"] == "func" else "procedure", s["n"], "(%s)" % ps if ps else "",
                               ": %s" % _tname(s["ret"], defs) if s["kind"] == "func" else "")
        subs.append(head)
        if s["locals"]:
            subs.append("var")
            subs += ["  %s: %s;" % (g["n"], _tname(g["ty"], defs)) for g in s["locals"]]
        blk = rblock(s["body"], 0)
        blk[-1] += ";"
        subs += blk
    out = ["program %s;" % prog["name"]]
    if defs:
        out += ["type"] + ["  %s = %s;" % (n, t) for n, t in defs.items()]
    if gl:
        out += ["var"] + gl
    out += subs
    main = rblock(prog["main"], 0)
    main[-1] += "."
    return "\n".join(out + main) + "\n"


# ------------------------------------------------------------------ random programs
COLOR = ENUM("color", ["red", "green", "blue", "black"])
PAIR = REC("pair", [("x", INT), ("y", INT), ("ok", BOOL)])
CLASSES = ("func", "var-param", "array", "array-lo", "for-zero-trip", "record", "subrange", "case-no-else", "builtin", "enum",
           "mod-neg", "const-cond")


class Gen:
    """Random terminating programs in which every variable is assigned before it is used and values stay small.
    avoid = construct classes that must not occur (classes with a listed known finding)."""

    def __init__(self, rng, avoid=(), max_subs=3, max_stmts=5, max_depth=3):
        self.r = rng
        self.avoid = set(avoid)
        self.max_subs, self.max_stmts, self.max_depth = max_subs, max_stmts, max_depth
        self.tmp = 0

    def ok(self, c):
        return c not in self.avoid

    # scopes: {"int": [names], "bool": [...], "char": [...], "enum": [...], "arr": [(name, type)], "rec": [name], "ctr": [names]}
    def program(self):
        r = self.r
        gl = [("g%d" % k, INT) for k in range(r.randint(2, 4))] + [("b%d" % k, BOOL) for k in range(r.randint(1, 2))]
        gl += [("c0", CHAR)] if r.random() < 0.6 else []
        gl += [("k%d" % k, INT) for k in range(3)]          # loop counters, never assigned by random statements
        sc = {"int": [n for n, t in gl if n[0] == "g"], "bool": [n for n, t in gl if n[0] == "b"], "char": [n for n, t in gl if n[0] == "c"],
              "enum": [], "sub": [], "arr": [], "rec": [], "ctr": ["k0", "k1", "k2"], "subs": [], "ro": []}
        if self.ok("enum") and r.random() < 0.5:
            gl.append(("e0", COLOR))
            sc["enum"].append("e0")
        if self.ok("subrange") and r.random() < 0.4:
            gl.append(("s0", SUB(-5, 40)))
            sc["sub"].append("s0")
        if self.ok("array") and r.random() < 0.6:
            lo = r.choice([0, 0, 1, -2, 3]) if self.ok("array-lo") else 0
            t = ARR(lo, lo + r.randint(2, 4), INT)
            gl.append(("a0", t))
            sc["arr"].append(("a0", t))
        if self.ok("record") and r.random() < 0.4:
            gl.append(("r0", PAIR))
            sc["rec"].append("r0")
        init = self.init_all(sc)
        subs = []
        for k in range(r.randint(0, self.max_subs)):
            subs.append(self.sub(k, sc))
            sc["subs"].append(subs[-1])
        main = init + self.stmts(sc, self.max_stmts + 1, 0, list(sc["ctr"])) + self.dump(sc)
        return PROG(gl, subs, main)

    def init_all(self, sc):
        r = self.r
        out = [ASG(V(n), L(r.randint(-9, 9))) for n in sc["int"]] + [ASG(V(n), BL(r.random() < 0.5)) for n in sc["bool"]]
        out += [ASG(V(n), CL(r.choice("abcxyz"))) for n in sc["char"]] + [ASG(V(n), EL(COLOR, r.choice(COLOR["vals"]))) for n in sc["enum"]]
        out += [ASG(V(n), L(r.randint(0, 9))) for n in sc["sub"]]
        for n, t in sc["arr"]:
            out += [ASG(IDX(n, L(j)), L(r.randint(-5, 5))) for j in range(t["lo"], t["hi"] + 1)]
        for n in sc["rec"]:
            out += [ASG(FLD(n, "x"), L(r.randint(-5, 5))), ASG(FLD(n, "y"), L(r.randint(0, 5))), ASG(FLD(n, "ok"), BL(True))]
        return out

    def dump(self, sc):
        out = []
        for n, t in sc["arr"]:
            out.append(WRITE(*[IDX(n, L(j)) for j in range(t["lo"], t["hi"] + 1)]))
        for n in sc["rec"]:
            out.append(WRITE(FLD(n, "x"), FLD(n, "y")))
        return out

    # ---- expressions
    def small(self):
        return L(self.r.choice([0, 1, 2, 3, 5, 7, -1, -2, -4, 10]))

    def int_atom(self, sc):
        r = self.r
        c = []
        c += [V(n) for n in sc["int"] + sc["ro"]] * 2 + [V(n) for n in sc["sub"]]
        c += [IDX(n, self.index(sc, t)) for n, t in sc["arr"]]
        c += [FLD(n, r.choice(["x", "y"])) for n in sc["rec"]]
        c += [self.small(), self.small()]
        return r.choice(c)

    def index(self, sc, t):
        """An index expression that is always inside lo..hi: a constant, or lo + (e*e mod n)."""
        r = self.r
        n = t["hi"] - t["lo"] + 1
        if r.random() < 0.6 or not sc["int"]:
            return L(r.randint(t["lo"], t["hi"]))
        v = V(r.choice(sc["int"]))
        e = B("mod", B("*", v, v), L(n))
        return e if t["lo"] == 0 else B("+", L(t["lo"]), e)

    def int_expr(self, sc, d):
        r = self.r
        if d <= 0 or r.random() < 0.3:
            return self.int_atom(sc)
        op = r.choice(["+", "-", "+", "-", "*", "div", "mod", "neg", "call", "bi"])
        if op == "neg":
            return U("-", self.int_expr(sc, d - 1))
        if op == "call":
            fs = [s for s in sc["subs"] if s["kind"] == "func" and cls(s["ret"]) == "int" and not any(p["var"] for p in s["params"])]
            if fs:
                f = r.choice(fs)
                return CALL(f["n"], *[self.expr_of(sc, p["ty"], d - 1) for p in f["params"]])
            op = "+"
        if op == "bi":
            if self.ok("builtin"):
                f = r.choice(["abs", "sqr", "succ", "pred", "ord"])
                if f == "ord":
                    return BI("ord", self.char_expr(sc) if sc["char"] else self.bool_expr(sc, d - 1))
                return BI(f, self.int_atom(sc))
            op = "-"
        a = self.int_expr(sc, d - 1)
        if op == "*":
            return B("*", self.int_atom(sc), self.small())
        if op == "div":
            return B("div", a, L(r.choice([1, 2, 3, 5, -2, -3])))
        if op == "mod":
            if not self.ok("mod-neg"):
                v = self.int_atom(sc)
                return B("mod", B("*", v, v), L(r.choice([2, 3, 5, 7])))
            return B("mod", a, L(r.choice([1, 2, 3, 5, 7])))
        return B(op, a, self.int_expr(sc, d - 1))

    def char_expr(self, sc):
        r = self.r
        if sc["char"] and r.random() < 0.6:
            return V(r.choice(sc["char"]))
        return CL(r.choice("abcmxyz"))

    def bool_expr(self, sc, d):
        r = self.r
        k = r.choice(["cmp", "cmp", "cmp", "var", "not", "and", "or", "ccmp", "ecmp", "lit", "bcmp"])
        if d <= 0 and k in ("not", "and", "or"):
            k = "cmp"
        if k == "cmp":
            return B(r.choice(["=", "<>", "<", ">", "<=", ">="]), self.int_expr(sc, d - 1), self.int_expr(sc, d - 1))
        if k == "var":
            return V(r.choice(sc["bool"])) if sc["bool"] else BL(True)
        if k == "lit":
            return BL(r.random() < 0.5) if self.ok("const-cond") else B("<", self.small(), self.small())
        if k == "not":
            return U("not", self.bool_expr(sc, d - 1))
        if k in ("and", "or"):
            return B(k, self.bool_expr(sc, d - 1), self.bool_expr(sc, d - 1))
        if k == "ccmp":
            return B(r.choice(["=", "<>", "<", ">="]), self.char_expr(sc), self.char_expr(sc))
        if k == "ecmp" and sc["enum"]:
            return B(r.choice(["=", "<>", "<", ">="]), V(r.choice(sc["enum"])), EL(COLOR, r.choice(COLOR["vals"])))
        if k == "bcmp" and sc["bool"]:
            return B(r.choice(["=", "<>"]), V(r.choice(sc["bool"])), self.bool_expr(sc, d - 1))
        return B("<", self.int_atom(sc), self.int_atom(sc))

    def expr_of(self, sc, ty, d):
        c = cls(ty)
        if c == "int":
            if ty["k"] == "sub":
                v = self.int_atom(sc)
                return B("mod", B("*", v, v), L(7))
            return self.int_expr(sc, d)
        if c == "bool":
            return self.bool_expr(sc, d)
        if c == "char":
            return self.char_expr(sc)
        return EL(COLOR, self.r.choice(COLOR["vals"]))

    # ---- statements
    def stmts(self, sc, n, depth, ctrs):
        return [self.stmt(sc, depth, ctrs) for _ in range(self.r.randint(1, max(1, n)))]

    def stmt(self, sc, depth, ctrs):
        r = self.r
        kinds = ["asg", "asg", "asg", "basg", "write", "call"]
        if depth < self.max_depth:
            kinds += ["if", "if", "case"]
            if ctrs:
                kinds += ["while", "repeat", "for", "for"]
        k = r.choice(kinds)
        d = self.max_depth
        if k == "asg":
            tg = [V(n) for n in sc["int"]] * 2 + [IDX(n, self.index(sc, t)) for n, t in sc["arr"]] + [FLD(n, r.choice(["x", "y"])) for n in sc["rec"]]
            tg += [V(n) for n in sc["sub"]] + [V(n) for n in sc["char"]] + [V(n) for n in sc["enum"]]
            t = r.choice(tg)
            if t.get("k") == "var" and t["n"] in sc["sub"]:
                return ASG(t, self.expr_of(sc, SUB(-5, 40), d))
            if t.get("k") == "var" and t["n"] in sc["char"]:
                return ASG(t, self.char_expr(sc))
            if t.get("k") == "var" and t["n"] in sc["enum"]:
                return ASG(t, EL(COLOR, r.choice(COLOR["vals"])))
            return ASG(t, self.int_expr(sc, d))
        if k == "basg" and sc["bool"]:
            return ASG(V(r.choice(sc["bool"])), self.bool_expr(sc, d))
        if k == "write":
            args = [self.int_expr(sc, 1) for _ in range(r.randint(1, 2))]
            if sc["char"] and r.random() < 0.3:
                args.append(self.char_expr(sc))
            if r.random() < 0.25:
                args[0] = (args[0], L(r.randint(1, 12)))
            return WRITE(*args, ln=r.random() < 0.4)
        if k == "call":
            ps = [s for s in sc["subs"] if s["kind"] == "proc"]
            if ps:
                p = r.choice(ps)
                args = []
                for q in p["params"]:
                    if q["var"]:
                        args.append(V(r.choice(sc["int"])))
                    else:
                        args.append(self.expr_of(sc, q["ty"], 2))
                # two var parameters must not be written through different names in a way that depends on order: aliasing is fine
                return CALL(p["n"], *args)
            return ASG(V(r.choice(sc["int"])), self.int_expr(sc, d))
        if k == "if":
            return IF(self.bool_expr(sc, d), self.stmts(sc, 3, depth + 1, ctrs), self.stmts(sc, 2, depth + 1, ctrs) if r.random() < 0.6 else [])
        if k == "case":
            n = r.randint(2, 4)
            v = self.int_atom(sc)
            sel = B("mod", B("*", v, v), L(n + (0 if not self.ok("case-no-else") or r.random() < 0.5 else 0)))
            labels = list(range(n))
            r.shuffle(labels)
            noelse = self.ok("case-no-else") and r.random() < 0.4
            if not noelse:
                labels = labels[: r.randint(1, n)]
            arms = []
            while labels:
                take = labels[: r.randint(1, 2)]
                labels = labels[len(take):]
                arms.append(([L(x) for x in take], self.stmts(sc, 2, depth + 1, ctrs)))
            return CASE(sel, arms, None if noelse else self.stmts(sc, 2, depth + 1, ctrs))
        c = ctrs[0]
        rest = ctrs[1:]
        sc2 = dict(sc, ro=sc["ro"] + [c])
        if k == "while":
            n = r.randint(0, 4)
            return IF(B("=", L(0), L(0)), [ASG(V(c), L(0)), WHILE(B("<", V(c), L(n)), self.stmts(sc2, 3, depth + 1, rest) + [ASG(V(c), B("+", V(c), L(1)))])])
        if k == "repeat":
            n = r.randint(1, 4)
            return IF(B("=", L(0), L(0)), [ASG(V(c), L(0)), REPEAT(self.stmts(sc2, 3, depth + 1, rest) + [ASG(V(c), B("+", V(c), L(1)))], B(">=", V(c), L(n)))])
        lo = r.randint(-2, 3)
        n = r.randint(0 if self.ok("for-zero-trip") else 1, 4)
        up = r.random() < 0.6
        a, b = (lo, lo + n - 1) if up else (lo + n - 1, lo)
        fin = L(b) if r.random() < 0.5 or not sc["int"] else B("+", B("-", V(sc["int"][0]), V(sc["int"][0])), L(b))
        return FOR(c, L(a), fin, self.stmts(sc2, 3, depth + 1, rest), up)

    # ---- routines
    def sub(self, k, sc):
        r = self.r
        isf = self.ok("func") and r.random() < 0.5
        name = ("f%d" if isf else "p%d") % k
        params = [P("x%d" % j, r.choice([INT, INT, BOOL])) for j in range(r.randint(0 if not isf else 1, 3))]
        if not isf and self.ok("var-param") and r.random() < 0.5:
            params.append(P("v0", INT, True))
        loc = [("l0", INT), ("l1", INT), ("lk", INT)]
        inner = dict(sc)
        inner["int"] = ["l0", "l1"] + ([sc["int"][0]] if r.random() < 0.6 else []) + [p["n"] for p in params if p["var"]]
        inner["ro"] = [p["n"] for p in params if p["ty"] is INT and not p["var"]]
        inner["bool"] = [p["n"] for p in params if p["ty"] is BOOL] + sc["bool"][:1]
        inner["sub"], inner["enum"] = [], []
        inner["arr"] = sc["arr"] if r.random() < 0.5 else []
        inner["rec"] = sc["rec"] if r.random() < 0.5 else []
        inner["ctr"] = ["lk"]
        inner["subs"] = list(sc["subs"])           # earlier routines only: no unbounded recursion
        body = [ASG(V("l0"), L(r.randint(-3, 3))), ASG(V("l1"), self.int_atom(dict(inner, int=["l0"], arr=[], rec=[])))]
        body += self.stmts(inner, self.max_stmts - 1, 1, ["lk"])
        if isf:
            body.append(RES(name, self.int_expr(inner, 2)))
            return FUNC(name, params, INT, loc, body)
        return PROC(name, params, loc, body)
