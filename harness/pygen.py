"""Abstract programs of property C36 (Python subset): JSON AST, renderer to annotated Python text, encoder for
tla/PySrc.tla, directed probes and a seeded random generator.

AST (the same object is printed as Python text for ppci / CPython and re-encoded, without interpretation, for TLC):
  prog = {"funcs": [{"n", "params": [name], "body": [stmt]}], "main": name}
  expr = {"k":"lit","v":int>=0} | {"k":"var","n"} | {"k":"neg","a"} | {"k":"bin","op","a","b"} | {"k":"call","f","args"}
  cond = {"k":"cmp","ops":[op],"es":[expr]} | {"k":"and","cs"} | {"k":"or","cs"} | {"k":"not","c"}
  stmt = asg(n,e) | aug(n,op,e) | tup(ns,es) | expr(e) | pass | ret(e) | if(c,t,f) | while(c,b) | for(v,args,b)
         | break | continue
Literals are non-negative (a negative constant is `neg(lit)` or `0 - lit`), so the text denotes the AST exactly.
This module contains no semantics: it never computes what a program returns.
"""
import random

ARITH = ["+", "-", "*", "//", "%"]
CMP = ["==", "!=", "<", "<=", ">", ">="]
MAX64 = (1 << 63) - 1
MIN64 = -(1 << 63)


# ------------------------------------------------------------------ constructors
def L(v):
    if v < 0:
        raise ValueError("literals are non-negative; use N(L(v)) or B('-', L(0), L(v))")
    return {"k": "lit", "v": v}


def V(n):
    return {"k": "var", "n": n}


def N(a):
    return {"k": "neg", "a": a}


def B(op, a, b):
    return {"k": "bin", "op": op, "a": a, "b": b}


def CALL(f, *args):
    return {"k": "call", "f": f, "args": list(args)}


def CMPC(a, op, b, *more):
    """CMPC(a, '<', b) or the chain CMPC(a, '<', b, '<=', c)."""
    ops, es = [op], [a, b]
    for k in range(0, len(more), 2):
        ops.append(more[k])
        es.append(more[k + 1])
    return {"k": "cmp", "ops": ops, "es": es}


def AND(*cs):
    return {"k": "and", "cs": list(cs)}


def OR(*cs):
    return {"k": "or", "cs": list(cs)}


def NOT(c):
    return {"k": "not", "c": c}


def ASG(n, e):
    return {"k": "asg", "n": n, "e": e}


def AUG(n, op, e):
    return {"k": "aug", "n": n, "op": op, "e": e}


def TUP(ns, es):
    return {"k": "tup", "ns": list(ns), "es": list(es)}


def EXPR(e):
    return {"k": "expr", "e": e}


def RET(e):
    return {"k": "ret", "e": e}


def IF(c, t, f=()):
    return {"k": "if", "c": c, "t": list(t), "f": list(f)}


def WHILE(c, b):
    return {"k": "while", "c": c, "b": list(b)}


def FOR(v, args, b):
    return {"k": "for", "v": v, "args": list(args), "b": list(b)}


BREAK = {"k": "break"}
CONTINUE = {"k": "continue"}
PASS = {"k": "pass"}


def FN(name, params, body):
    return {"n": name, "params": list(params), "body": list(body)}


def PROG(*funcs):
    return {"funcs": list(funcs), "main": funcs[-1]["n"]}


def C(v):
    """An integer constant as an expression of the core subset (no unary minus needed)."""
    return L(v) if v >= 0 else B("-", L(0), L(-v))


# ------------------------------------------------------------------ rendering as Python text
def r_expr(e, top=True):
    k = e["k"]
    if k == "lit":
        return str(e["v"])
    if k == "var":
        return e["n"]
    if k == "neg":
        s = "-" + r_expr(e["a"], False)
        return s if top else "(" + s + ")"
    if k == "bin":
        s = "%s %s %s" % (r_expr(e["a"], False), e["op"], r_expr(e["b"], False))
        return s if top else "(" + s + ")"
    if k == "call":
        return "%s(%s)" % (e["f"], ", ".join(r_expr(a) for a in e["args"]))
    raise ValueError(k)


def r_cond(c, top=True):
    k = c["k"]
    if k == "cmp":
        s = r_expr(c["es"][0], False)
        for op, e in zip(c["ops"], c["es"][1:]):
            s += " %s %s" % (op, r_expr(e, False))
        return s if top else "(" + s + ")"
    if k in ("and", "or"):
        s = (" %s " % k).join(r_cond(x, False) for x in c["cs"])
        return s if top else "(" + s + ")"
    if k == "not":
        s = "not " + r_cond(c["c"], False)
        return s if top else "(" + s + ")"
    raise ValueError(k)


def r_stmts(ss, ind, out):
    pad = "    " * ind
    if not ss:
        out.append(pad + "pass")
    for s in ss:
        k = s["k"]
        if k == "asg":
            out.append("%s%s = %s" % (pad, s["n"], r_expr(s["e"])))
        elif k == "aug":
            out.append("%s%s %s= %s" % (pad, s["n"], s["op"], r_expr(s["e"])))
        elif k == "tup":
            out.append("%s%s = %s" % (pad, ", ".join(s["ns"]), ", ".join(r_expr(e) for e in s["es"])))
        elif k == "expr":
            out.append(pad + r_expr(s["e"]))
        elif k == "pass":
            out.append(pad + "pass")
        elif k == "ret":
            out.append("%sreturn %s" % (pad, r_expr(s["e"])))
        elif k == "break":
            out.append(pad + "break")
        elif k == "continue":
            out.append(pad + "continue")
        elif k == "if":
            word = "if"
            cur = s
            while True:
                out.append("%s%s %s:" % (pad, word, r_cond(cur["c"])))
                r_stmts(cur["t"], ind + 1, out)
                f = cur["f"]
                if len(f) == 1 and f[0]["k"] == "if":     # `else: if` and `elif` are the same syntax tree
                    word, cur = "elif", f[0]
                    continue
                if f:
                    out.append(pad + "else:")
                    r_stmts(f, ind + 1, out)
                break
        elif k == "while":
            out.append("%swhile %s:" % (pad, r_cond(s["c"])))
            r_stmts(s["b"], ind + 1, out)
        elif k == "for":
            out.append("%sfor %s in range(%s):" % (pad, s["v"], ", ".join(r_expr(a) for a in s["args"])))
            r_stmts(s["b"], ind + 1, out)
        else:
            raise ValueError(k)


def render(prog):
    out = []
    for f in prog["funcs"]:
        out.append("def %s(%s) -> int:" % (f["n"], ", ".join("%s: int" % p for p in f["params"])))
        r_stmts(f["body"], 1, out)
        out.append("")
    return "\n".join(out)


# ------------------------------------------------------------------ encoding for TLC (64-bit words as byte lists)
def word(v, n=8):
    v &= (1 << (8 * n)) - 1
    return [(v >> (8 * k)) & 255 for k in range(n)]


def unword(bs, signed=True):
    v = sum(b << (8 * k) for k, b in enumerate(bs))
    if signed and bs and bs[-1] >= 128:
        v -= 1 << (8 * len(bs))
    return v


def to_tla(x):
    """The same tree with every literal value replaced by its 8-byte word (TLC integers are 32-bit)."""
    if isinstance(x, list):
        return [to_tla(y) for y in x]
    if isinstance(x, dict):
        if x.get("k") == "lit":
            return {"k": "lit", "w": word(x["v"])}
        return {k: to_tla(v) for k, v in x.items()}
    return x


# ------------------------------------------------------------------ syntactic facts (no evaluation)
def walk_stmts(ss, fn, loops=()):
    for s in ss:
        fn(s, loops)
        if s["k"] == "if":
            walk_stmts(s["t"], fn, loops)
            walk_stmts(s["f"], fn, loops)
        elif s["k"] in ("while", "for"):
            walk_stmts(s["b"], fn, loops + (s,))


def expr_nodes(e):
    k = e.get("k")
    if k in ("lit", "var"):
        return 1
    if k == "neg":
        return 1 + expr_nodes(e["a"])
    if k == "bin":
        return 1 + expr_nodes(e["a"]) + expr_nodes(e["b"])
    if k == "call":
        return 1 + sum(expr_nodes(a) for a in e["args"])
    if k == "cmp":
        return len(e["ops"]) + sum(expr_nodes(a) for a in e["es"])
    if k in ("and", "or"):
        return 1 + sum(expr_nodes(a) for a in e["cs"])
    if k == "not":
        return 1 + expr_nodes(e["c"])
    return 1


def stmt_nodes(s):
    n = 2
    for key in ("e", "c"):
        if key in s:
            n += expr_nodes(s[key])
    for key in ("es", "args"):
        if key in s:
            n += sum(expr_nodes(a) for a in s[key])
    return n


def max_stmt_nodes(prog):
    best = [4]

    def see(s, loops):
        best[0] = max(best[0], stmt_nodes(s))

    for f in prog["funcs"]:
        walk_stmts(f["body"], see)
    return best[0]


def count_stmts(prog):
    n = [0]

    def see(s, loops):
        n[0] += 1

    for f in prog["funcs"]:
        walk_stmts(f["body"], see)
    return n[0]


def constructs(prog):
    """Which constructs of the subset occur (for the evidence histogram)."""
    tags = set()

    def ex(e):
        k = e["k"]
        if k == "bin":
            tags.add("op" + e["op"])
            ex(e["a"])
            ex(e["b"])
        elif k == "neg":
            tags.add("neg")
            ex(e["a"])
        elif k == "call":
            tags.add("call")
            for a in e["args"]:
                ex(a)
        elif k == "cmp":
            tags.add("chain" if len(e["ops"]) > 1 else "cmp")
            for a in e["es"]:
                ex(a)
        elif k in ("and", "or"):
            tags.add(k)
            for a in e["cs"]:
                ex(a)
        elif k == "not":
            tags.add("not")
            ex(e["c"])

    def see(s, loops):
        k = s["k"]
        tags.add(k)
        if k == "aug":
            tags.add("aug" + s["op"])
        if k == "for":
            tags.add("range%d" % len(s["args"]))
            if any(b["k"] not in ("asg", "aug", "tup", "expr", "pass") for b in s["b"]):
                tags.add("for-with-inner-control-flow")
        if k in ("break", "continue") and loops:
            tags.add("%s-in-%s" % (k, loops[-1]["k"]))
        if len(loops) >= 2:
            tags.add("nested-loops")
        for key in ("e", "c"):
            if key in s:
                ex(s[key])
        for key in ("es", "args"):
            for a in s.get(key, []):
                ex(a)

    for f in prog["funcs"]:
        walk_stmts(f["body"], see)
    return tags


# ------------------------------------------------------------------ argument vectors
BOUNDARY = [0, 1, -1, 2, -2, 3, 5, -7, 10, 17, -100, (1 << 31) - 1, -(1 << 31), (1 << 31) + 3, 1 << 62, -(1 << 62),
            (1 << 62) - 1, MAX64, MIN64]


def arg_vectors(nparams, rng, n):
    """Boundary values (0, +-1, small, near +-2^31 and +-2^62, the 64-bit extremes) and seeded random ones."""
    vecs = []
    seen = set()

    def add(v):
        if tuple(v) not in seen and len(vecs) < n:
            seen.add(tuple(v))
            vecs.append(list(v))

    add([0] * nparams)
    add([k + 1 for k in range(nparams)])
    tries = 0
    while len(vecs) < n and tries < 50 * n:
        tries += 1
        c = rng.random()
        if c < 0.45:
            v = [rng.randrange(-9, 13) for _ in range(nparams)]
        elif c < 0.75:
            v = [rng.choice(BOUNDARY) if rng.random() < 0.5 else rng.randrange(-9, 13) for _ in range(nparams)]
        elif c < 0.9:
            v = [rng.randrange(-(1 << 33), 1 << 33) for _ in range(nparams)]
        else:
            v = [rng.randrange(MIN64, MAX64 + 1) for _ in range(nparams)]
        add(v)
    return vecs


# ------------------------------------------------------------------ directed probes
# Optional features: constructs of the Python language that the PySrc.tla semantics covers and that belong to the
# property only if python2ir supports them.  `support` is the smallest program using the feature: the feature is
# generated (and judged like everything else) only when that program compiles.
FEATURES = {
    "mod": PROG(FN("f", ["a", "b"], [RET(B("%", V("a"), V("b")))])),
    "neg": PROG(FN("f", ["a"], [RET(N(V("a")))])),
    "not": PROG(FN("f", ["a"], [IF(NOT(CMPC(V("a"), "<", L(1))), [RET(L(1))]), RET(L(2))])),
    "chain": PROG(FN("f", ["a"], [IF(CMPC(L(0), "<", V("a"), "<", L(5)), [RET(L(1))]), RET(L(2))])),
    "range3": PROG(FN("f", ["a"], [ASG("s", L(0)), FOR("i", [L(0), V("a"), L(2)], [AUG("s", "+", V("i"))]), RET(V("s"))])),
}

SIGNED_PAIRS = [[7, 2], [6, 3], [0, 5], [1, 1], [100, 7], [-7, 2], [7, -2], [-7, -2], [-6, 3], [6, -3], [-1, 2], [1, -2],
                [-1, -1], [0, -5], [MAX64, 2], [MIN64, 2], [MIN64 + 1, -1], [MAX64, -1], [(1 << 62) + 5, -3], [-5, 1 << 40],
                [5, 0], [MIN64, -1]]
ARITH_PAIRS = [[0, 0], [1, 2], [-1, 1], [12345, 678], [-3, -4], [(1 << 31), (1 << 31)], [(1 << 31) - 1, 2], [1 << 62, 1 << 62],
               [MAX64, 1], [MIN64, 1], [MIN64, -1], [MAX64, MAX64], [3037000499, 3037000499], [3037000500, 3037000500],
               [-(1 << 32), 1 << 31], [1 << 32, -(1 << 31)], [MIN64, 0], [MAX64, -1], [-(1 << 62), 2], [-(1 << 62), -2]]
SMALL1 = [[0], [1], [2], [3], [5], [8], [-1], [-4], [13]]


def probes(thorough=False):
    """(class, name, program, vectors).  class = the construct family a failure is attributed to; the random programs
    of the same run are generated without the families whose probes failed."""
    P = []

    def add(cls, name, prog, vecs):
        P.append((cls, name, prog, [list(v) for v in vecs]))

    a, b, c, n, s, i, j, x, y = (V(t) for t in "abcnsijxy")
    # ---- arithmetic and comparisons
    for op, nm in (("+", "add"), ("-", "sub"), ("*", "mul")):
        add("arith", nm, PROG(FN("f", ["a", "b"], [RET(B(op, a, b))])), ARITH_PAIRS)
        add("arith", "aug-" + nm, PROG(FN("f", ["a", "b"], [AUG("a", op, b), RET(a)])), ARITH_PAIRS[:10])
    add("arith", "nested", PROG(FN("f", ["a", "b", "c"], [RET(B("-", B("*", B("+", a, b), c), B("*", a, B("-", b, c))))])),
        [[1, 2, 3], [-4, 5, -6], [0, 0, 0], [1 << 31, 1 << 30, 3], [100000, -100000, 99999], [MAX64, 0, 1], [7, -7, 7]])
    add("arith", "constants", PROG(FN("f", ["a"], [RET(B("+", B("*", a, L(1 << 40)), B("-", L(0), L((1 << 62) + 12345))))])),
        [[0], [1], [-1], [1 << 20], [-(1 << 21)], [(1 << 22) + 1], [1 << 23]])
    add("floordiv", "binop", PROG(FN("f", ["a", "b"], [RET(B("//", a, b))])), SIGNED_PAIRS)
    add("floordiv", "aug", PROG(FN("f", ["a", "b"], [AUG("a", "//", b), RET(a)])), SIGNED_PAIRS)
    add("floordiv", "const-divisor", PROG(FN("f", ["a"], [RET(B("+", B("*", B("//", a, L(3)), L(1000)), B("//", a, C(-4))))])),
        [[9], [10], [0], [1], [-1], [-9], [-10], [1 << 40], [-(1 << 40)], [MIN64 + 2]])
    for op in CMP:
        add("compare", op, PROG(FN("f", ["a", "b"], [IF(CMPC(a, op, b), [RET(L(1))], [RET(L(0))])])),
            [[0, 0], [1, 2], [2, 1], [-1, 1], [1, -1], [-2, -1], [MIN64, MAX64], [MAX64, MIN64], [1 << 31, -(1 << 31)],
             [(1 << 32) + 1, 1], [(1 << 62) - 1, 1 << 62], [-1, -1], [MIN64, MIN64], [(1 << 32), (1 << 32) + 1]])
    # ---- boolean conditions
    add("bool", "and", PROG(FN("f", ["a", "b"], [IF(AND(CMPC(a, ">", L(0)), CMPC(b, ">", L(0))), [RET(L(1))]), RET(L(0))])),
        [[1, 1], [1, 0], [0, 1], [0, 0], [-1, 5], [5, -1]])
    add("bool", "or", PROG(FN("f", ["a", "b"], [IF(OR(CMPC(a, ">", L(0)), CMPC(b, ">", L(0))), [RET(L(1))]), RET(L(0))])),
        [[1, 1], [1, 0], [0, 1], [0, 0], [-1, 5], [5, -1]])
    add("bool", "and-or-nested",
        PROG(FN("f", ["a", "b", "c"], [IF(OR(AND(CMPC(a, "<", b), CMPC(b, "<", c)), AND(CMPC(a, "==", c), OR(CMPC(b, "!=", L(0)), CMPC(a, ">", L(5))))),
                                          [RET(L(1))], [RET(L(2))])])),
        [[1, 2, 3], [3, 2, 1], [1, 0, 1], [6, 0, 6], [2, 0, 2], [2, 5, 2], [0, 0, 0], [-1, 0, 1]])
    add("bool", "three-operands", PROG(FN("f", ["a", "b", "c"], [ASG("r", L(0)),
                                                                 IF(AND(CMPC(a, ">", L(0)), CMPC(b, ">", L(0)), CMPC(c, ">", L(0))), [AUG("r", "+", L(1))]),
                                                                 IF(OR(CMPC(a, ">", L(0)), CMPC(b, ">", L(0)), CMPC(c, ">", L(0))), [AUG("r", "+", L(10))]),
                                                                 RET(V("r"))])),
        [[x_, y_, z_] for x_ in (0, 1) for y_ in (0, 1) for z_ in (0, 1)])
    # short circuit is observable through the exception it avoids (divisor > 0 only: the sign rules are probed above)
    add("bool", "short-circuit-guard",
        PROG(FN("f", ["a", "b"], [IF(AND(CMPC(b, "!=", L(0)), CMPC(B("//", a, b), ">", L(2))), [RET(L(1))]),
                                  IF(OR(CMPC(b, "==", L(0)), CMPC(B("//", L(100), b), "<", L(10))), [RET(L(2))]), RET(L(3))])),
        [[7, 0], [7, 2], [1, 2], [50, 20], [9, 3], [0, 0], [100, 11]])
    # ---- if / elif / else
    add("if", "elif-chain", PROG(FN("f", ["a"], [IF(CMPC(a, "<", L(0)), [RET(L(1))], [IF(CMPC(a, "==", L(0)), [RET(L(2))], [IF(CMPC(a, "<", L(10)), [RET(L(3))], [RET(L(4))])])])])),
        [[-5], [0], [5], [10], [11], [MIN64], [MAX64]])
    add("if", "nested-assign", PROG(FN("f", ["a", "b"], [ASG("r", L(0)),
                                                       IF(CMPC(a, ">", b), [IF(CMPC(a, ">", L(10)), [ASG("r", L(1))], [ASG("r", L(2))]), AUG("r", "+", L(10))],
                                                          [ASG("r", L(3))]), RET(V("r"))])),
        [[20, 1], [5, 1], [1, 5], [0, 0], [11, 10]])
    add("if", "no-else-fallthrough", PROG(FN("f", ["a"], [ASG("r", a), IF(CMPC(a, "<", L(0)), [ASG("r", B("-", L(0), a))]), RET(V("r"))])),
        [[5], [-5], [0], [MIN64 + 1]])
    # ---- while
    add("while", "sum", PROG(FN("f", ["n"], [ASG("s", L(0)), WHILE(CMPC(n, ">", L(0)), [AUG("s", "+", n), AUG("n", "-", L(1))]), RET(s)])), SMALL1)
    add("while", "break-continue",
        PROG(FN("f", ["n"], [ASG("s", L(0)), ASG("k", L(0)),
                             WHILE(CMPC(V("k"), "<", n), [AUG("k", "+", L(1)), IF(CMPC(V("k"), "==", L(2)), [CONTINUE]),
                                                        IF(CMPC(V("k"), "==", L(6)), [BREAK]), AUG("s", "+", V("k"))]),
                             RET(B("+", B("*", s, L(100)), V("k")))])), SMALL1 + [[6], [7]])
    add("while", "nested",
        PROG(FN("f", ["n"], [ASG("s", L(0)), ASG("x", L(0)),
                             WHILE(CMPC(x, "<", n), [ASG("y", L(0)),
                                                    WHILE(CMPC(y, "<", x), [IF(CMPC(y, "==", L(3)), [BREAK]), AUG("s", "+", y), AUG("y", "+", L(1))]),
                                                    AUG("x", "+", L(1)), IF(CMPC(x, "==", L(2)), [CONTINUE]), AUG("s", "+", L(100))]),
                             RET(s)])), SMALL1)
    add("while", "return-inside", PROG(FN("f", ["n"], [ASG("k", L(0)), WHILE(CMPC(V("k"), "<", L(10)), [IF(CMPC(B("*", V("k"), V("k")), ">=", n), [RET(V("k"))]), AUG("k", "+", L(1))]), RET(B("-", L(0), L(1)))])),
        [[0], [1], [2], [10], [81], [82], [1000], [-5]])
    add("while", "compound-condition", PROG(FN("f", ["a", "b"], [ASG("k", L(0)), WHILE(AND(CMPC(a, "<", b), OR(CMPC(V("k"), "<", L(5)), CMPC(a, "<", L(0)))), [AUG("a", "+", L(1)), AUG("k", "+", L(1))]), RET(B("+", B("*", V("k"), L(1000)), a))])),
        [[0, 3], [0, 9], [-4, 9], [5, 5], [9, 0], [-9, -2]])
    # continue must re-evaluate the *whole* compound condition (the first operand decides after a continue)
    add("while", "and-continue",
        PROG(FN("f", ["n", "lim"], [ASG("s", L(0)), ASG("k", L(0)),
                                    WHILE(AND(CMPC(V("k"), "<", n), CMPC(s, "<", V("lim"))),
                                          [AUG("k", "+", L(1)), IF(CMPC(B("-", V("k"), B("*", B("//", V("k"), L(2)), L(2))), "==", L(0)), [CONTINUE]),
                                           AUG("s", "+", V("k"))]),
                                    RET(B("+", B("*", s, L(1000)), V("k")))])),
        [[2, 5], [4, 100], [6, 3], [1, 1], [0, 0], [7, 9]])
    add("while", "or-continue",
        PROG(FN("f", ["a", "b"], [ASG("c", L(0)),
                                  WHILE(OR(CMPC(V("a"), ">", L(0)), CMPC(V("b"), ">", L(0))),
                                        [AUG("c", "+", L(1)), AUG("a", "-", L(1)), IF(CMPC(V("c"), ">", L(40)), [BREAK]),
                                         IF(CMPC(a, ">=", L(0)), [CONTINUE]), AUG("b", "-", L(2))]),
                                  RET(B("+", B("*", V("c"), L(100)), b))])),
        [[3, 0], [0, 3], [2, 5], [0, 0], [5, 1]])
    add("while", "and-or-continue-last-true",
        PROG(FN("f", ["n"], [ASG("k", L(0)), ASG("s", L(0)),
                             WHILE(AND(CMPC(V("k"), "<", n), OR(CMPC(s, "<", L(1000)), CMPC(n, ">", L(0)))),
                                   [AUG("k", "+", L(1)), IF(CMPC(V("k"), ">", L(50)), [BREAK]), IF(CMPC(V("k"), "<", L(100)), [CONTINUE]), AUG("s", "+", L(1))]),
                             RET(B("+", B("*", V("k"), L(10)), s))])), SMALL1)
    # ---- for over range, simple bodies
    add("for", "range1-sum", PROG(FN("f", ["n"], [ASG("s", L(0)), FOR("i", [n], [AUG("s", "+", i)]), RET(s)])), SMALL1 + [[-100], [MIN64]])
    add("for", "range2-sum", PROG(FN("f", ["a", "b"], [ASG("s", L(0)), FOR("i", [a, b], [AUG("s", "+", B("*", i, i))]), RET(s)])),
        [[0, 5], [2, 5], [5, 5], [5, 2], [-3, 3], [-5, -2], [-2, -5], [MAX64 - 2, MAX64], [MIN64, MIN64 + 3], [0, 0], [7, 8]])
    add("for", "range-expression-arguments",
        PROG(FN("f", ["a", "b"], [ASG("s", L(0)), FOR("i", [B("-", a, L(1)), B("+", b, b)], [AUG("s", "+", i)]), RET(s)])),
        [[1, 3], [0, 0], [5, 1], [-2, 2]])
    add("for", "bound-evaluated-once",
        PROG(FN("f", ["n"], [ASG("c", L(0)), FOR("i", [n], [AUG("n", "+", L(2)), AUG("c", "+", L(1))]), RET(B("+", B("*", c, L(1000)), n))])), SMALL1)
    add("for", "sequential-loops-same-variable",
        PROG(FN("f", ["n"], [ASG("s", L(0)), FOR("i", [n], [AUG("s", "+", i)]), FOR("i", [L(2), n], [AUG("s", "+", B("*", i, L(10)))]), RET(s)])), SMALL1)
    add("for", "inside-while",
        PROG(FN("f", ["n"], [ASG("s", L(0)), WHILE(CMPC(n, ">", L(0)), [FOR("i", [n], [AUG("s", "+", i)]), AUG("n", "-", L(1))]), RET(s)])), SMALL1)
    add("for", "inside-if",
        PROG(FN("f", ["n"], [ASG("s", L(0)), IF(CMPC(n, ">", L(2)), [FOR("i", [n], [AUG("s", "+", i)])], [FOR("i", [L(0), L(4)], [AUG("s", "+", L(1))])]), RET(s)])), SMALL1)
    add("for", "tuple-and-call-in-body",
        PROG(FN("g", ["x"], [RET(B("+", x, L(1)))]),
             FN("f", ["n"], [ASG("p", L(0)), ASG("q", L(1)), FOR("i", [n], [TUP(["p", "q"], [V("q"), B("+", V("p"), V("q"))]), EXPR(CALL("g", i))]), RET(V("p"))])), SMALL1)
    # ---- for bodies that consist of more than one basic block
    add("for-body-blocks", "if", PROG(FN("f", ["n"], [ASG("s", L(0)), FOR("i", [n], [IF(CMPC(i, ">", L(2)), [AUG("s", "+", i)])]), RET(s)])), SMALL1)
    add("for-body-blocks", "if-else", PROG(FN("f", ["n"], [ASG("s", L(0)), FOR("i", [n], [IF(CMPC(i, ">", L(2)), [AUG("s", "+", i)], [AUG("s", "-", L(1))]), AUG("s", "*", L(2))]), RET(s)])), SMALL1)
    add("for-body-blocks", "break", PROG(FN("f", ["n"], [ASG("s", L(0)), FOR("i", [n], [IF(CMPC(i, "==", L(4)), [BREAK]), AUG("s", "+", i)]), RET(s)])), SMALL1)
    add("for-body-blocks", "break-unconditional", PROG(FN("f", ["n"], [ASG("s", L(5)), FOR("i", [n], [AUG("s", "+", L(1)), BREAK]), RET(s)])), SMALL1)
    add("for-body-blocks", "return", PROG(FN("f", ["n"], [FOR("i", [L(1), n], [IF(CMPC(B("*", i, i), ">", n), [RET(i)])]), RET(L(0))])), SMALL1 + [[30]])
    add("for-body-blocks", "nested-for", PROG(FN("f", ["n"], [ASG("s", L(0)), FOR("i", [n], [FOR("j", [i], [AUG("s", "+", j)]), AUG("s", "+", L(100))]), RET(s)])), SMALL1)
    add("for-body-blocks", "nested-for-break-inner",
        PROG(FN("f", ["n"], [ASG("s", L(0)), FOR("i", [n], [FOR("j", [n], [IF(CMPC(j, ">", i), [BREAK]), AUG("s", "+", L(1))])]), RET(s)])), SMALL1)
    add("for-body-blocks", "while-inside", PROG(FN("f", ["n"], [ASG("s", L(0)), FOR("i", [n], [WHILE(CMPC(s, "<", B("*", i, L(3))), [AUG("s", "+", L(2))])]), RET(s)])), SMALL1)
    add("for-continue", "continue", PROG(FN("f", ["n"], [ASG("s", L(0)), FOR("i", [n], [IF(CMPC(i, "==", L(2)), [CONTINUE]), AUG("s", "+", i)]), RET(s)])), SMALL1)
    add("for-continue", "continue-and-break",
        PROG(FN("f", ["a", "b"], [ASG("s", L(0)), FOR("i", [a, b], [IF(CMPC(i, "<", L(0)), [CONTINUE]), IF(CMPC(i, ">", L(5)), [BREAK]), AUG("s", "+", L(1))]), RET(s)])),
        [[0, 3], [-3, 3], [-3, 9], [4, 100], [3, 3], [9, 2]])
    add("for-continue", "continue-in-nested-for",
        PROG(FN("f", ["n"], [ASG("s", L(0)), FOR("i", [n], [FOR("j", [n], [IF(CMPC(j, "==", i), [CONTINUE]), AUG("s", "+", L(1))]),
                                                          IF(CMPC(i, "==", L(1)), [CONTINUE]), AUG("s", "+", L(100))]), RET(s)])), SMALL1)
    add("for-continue", "continue-in-while-inside-for",
        PROG(FN("f", ["n"], [ASG("s", L(0)), FOR("i", [n], [ASG("k", L(0)), WHILE(CMPC(V("k"), "<", i), [AUG("k", "+", L(1)), IF(CMPC(V("k"), "==", L(2)), [CONTINUE]), AUG("s", "+", L(1))])]), RET(s)])), SMALL1)
    # ---- the loop target is an ordinary local variable
    add("for-var-after", "read-after-loop", PROG(FN("f", ["n"], [ASG("i", L(77)), FOR("i", [n], [PASS]), RET(i)])), SMALL1)
    add("for-var-after", "read-after-break", PROG(FN("f", ["n"], [ASG("i", L(77)), ASG("s", L(0)), FOR("i", [n], [AUG("s", "+", L(1)), BREAK]), RET(B("+", B("*", s, L(1000)), i))])), SMALL1)
    add("for-var-after", "target-is-parameter", PROG(FN("f", ["a"], [ASG("s", L(0)), FOR("a", [a], [AUG("s", "+", a)]), RET(B("+", B("*", s, L(1000)), a))])), SMALL1)
    add("for-var-assign", "assign-in-body", PROG(FN("f", ["n"], [ASG("s", L(0)), FOR("i", [n], [ASG("i", B("*", i, L(2))), AUG("s", "+", i)]), RET(s)])), SMALL1)
    add("for-var-assign", "augassign-in-body", PROG(FN("f", ["n"], [ASG("s", L(0)), FOR("i", [n], [AUG("i", "+", L(10)), AUG("s", "+", i)]), RET(s)])), SMALL1)
    # ---- locals first bound inside a suite
    add("late-local", "bound-in-both-branches", PROG(FN("f", ["a"], [IF(CMPC(a, ">", L(0)), [ASG("y", L(1))], [ASG("y", L(2))]), RET(y)])), [[1], [0], [-1]])
    add("late-local", "bound-in-while-body", PROG(FN("f", ["n"], [ASG("k", L(0)), WHILE(CMPC(V("k"), "<", n), [ASG("y", B("*", V("k"), L(3))), AUG("k", "+", L(1))]), IF(CMPC(n, ">", L(0)), [RET(y)]), RET(L(55))])),
        SMALL1)
    add("late-local", "bound-in-branch-used-in-loop",
        PROG(FN("f", ["a"], [IF(CMPC(a, ">", L(2)), [ASG("y", L(10))], [IF(CMPC(a, ">", L(0)), [ASG("y", L(20))], [ASG("y", L(30))])]),
                             ASG("s", L(0)), WHILE(CMPC(a, ">", L(0)), [AUG("s", "+", y), AUG("a", "-", L(1))]), RET(B("+", s, y))])), [[0], [1], [2], [3], [5], [-2]])
    # ---- assignment forms
    add("assign", "tuple-swap", PROG(FN("f", ["a", "b"], [TUP(["a", "b"], [b, a]), RET(B("-", B("*", a, L(1000)), b))])), [[1, 2], [0, 0], [-5, 9], [9, -5]])
    add("assign", "tuple-rotate", PROG(FN("f", ["a", "b", "c"], [TUP(["a", "b", "c"], [b, c, B("+", a, L(1))]), RET(B("+", B("*", B("+", B("*", a, L(100)), b), L(100)), c))])),
        [[1, 2, 3], [0, 0, 0], [9, 8, 7]])
    add("assign", "chain-of-updates", PROG(FN("f", ["a"], [ASG("x", a), ASG("y", B("+", x, L(1))), ASG("x", B("*", y, L(2))), AUG("y", "-", x), AUG("x", "*", y), RET(B("+", x, y))])),
        [[0], [1], [-1], [7], [1 << 20], [-(1 << 20)]])
    # ---- calls
    add("call", "simple", PROG(FN("g", ["x", "y"], [RET(B("-", B("*", x, L(10)), y))]), FN("f", ["a", "b"], [RET(B("+", CALL("g", a, b), CALL("g", b, a)))])),
        [[1, 2], [0, 0], [-3, 4], [1 << 31, 5]])
    add("call", "nested-and-in-condition",
        PROG(FN("g", ["x"], [IF(CMPC(x, "<", L(0)), [RET(B("-", L(0), x))]), RET(x)]),
             FN("h", ["x", "y"], [RET(B("+", CALL("g", x), CALL("g", y)))]),
             FN("f", ["a", "b"], [ASG("r", L(0)), IF(CMPC(CALL("g", a), ">", CALL("g", b)), [ASG("r", CALL("h", CALL("g", a), B("-", L(0), b)))], [ASG("r", CALL("g", CALL("h", a, b)))]),
                                  WHILE(CMPC(CALL("g", V("r")), ">", L(3)), [AUG("r", "-", L(3))]), RET(V("r"))])),
        [[1, 2], [-5, 2], [0, 0], [-7, -9], [4, -4]])
    add("call", "recursion", PROG(FN("f", ["n"], [IF(CMPC(n, "<", L(1)), [RET(L(0))]), RET(B("+", n, CALL("f", B("-", n, L(1)))))])), [[0], [1], [4], [8], [-3]])
    add("call", "in-range-argument-and-statement",
        PROG(FN("g", ["x"], [RET(B("+", x, L(2)))]),
             FN("f", ["n"], [ASG("s", L(0)), EXPR(CALL("g", n)), FOR("i", [CALL("g", L(0)), CALL("g", n)], [AUG("s", "+", CALL("g", i))]), RET(s)])), SMALL1)
    add("forward-call", "callee-defined-later", PROG(FN("f", ["a"], [RET(B("+", CALL("g", a), L(1)))]), FN("g", ["x"], [RET(B("*", x, L(2)))])) | {"main": "f"}, [[1], [0], [-4]])
    add("forward-call", "mutual-recursion",
        PROG(FN("f", ["n"], [IF(CMPC(n, "<", L(1)), [RET(L(1))]), RET(CALL("g", B("-", n, L(1))))]),
             FN("g", ["n"], [IF(CMPC(n, "<", L(1)), [RET(L(0))]), RET(CALL("f", B("-", n, L(1))))])) | {"main": "f"}, [[0], [1], [2], [5], [8]])
    # ---- optional features (run only when python2ir supports the construct)
    add("mod", "binop", PROG(FN("f", ["a", "b"], [RET(B("%", a, b))])), SIGNED_PAIRS)
    add("mod", "aug", PROG(FN("f", ["a", "b"], [AUG("a", "%", b), RET(a)])), SIGNED_PAIRS)
    add("mod", "divmod-identity", PROG(FN("f", ["a", "b"], [RET(B("+", B("*", B("//", a, b), b), B("%", a, b)))])), SIGNED_PAIRS)
    add("neg", "unary", PROG(FN("f", ["a", "b"], [RET(B("-", N(a), N(B("+", a, N(b)))))])), ARITH_PAIRS)
    add("neg", "literal", PROG(FN("f", ["a"], [IF(CMPC(a, "<", N(L(3))), [RET(N(L(1)))]), RET(B("*", a, N(L(7))))])), [[0], [-3], [-4], [5], [MIN64]])
    add("not", "not", PROG(FN("f", ["a", "b"], [IF(NOT(CMPC(a, "<", b)), [RET(L(1))]), IF(NOT(OR(CMPC(a, "==", L(0)), NOT(CMPC(b, ">", L(5))))), [RET(L(2))]), RET(L(3))])),
        [[1, 2], [2, 1], [0, 9], [-1, 9], [-1, 5], [3, 3]])
    add("chain", "chain", PROG(FN("f", ["a", "b", "c"], [IF(CMPC(a, "<", b, "<=", c), [RET(L(1))]), IF(CMPC(a, "==", b, "!=", c), [RET(L(2))]), IF(CMPC(a, ">", b, ">", c, ">", L(0)), [RET(L(3))]), RET(L(4))])),
        [[1, 2, 3], [1, 2, 2], [2, 2, 3], [2, 2, 2], [3, 2, 1], [3, 2, 0], [3, 1, 2], [0, 0, 0]])
    add("range3", "step", PROG(FN("f", ["a", "b", "c"], [ASG("s", L(0)), ASG("k", L(0)), FOR("i", [a, b, c], [AUG("s", "+", i), AUG("k", "+", L(1))]), RET(B("+", B("*", V("k"), L(1000)), s))])),
        [[0, 10, 3], [0, 9, 3], [10, 0, -3], [10, 1, -3], [0, 10, -1], [10, 0, 1], [5, 5, 2], [-5, 5, 4], [5, -5, -4], [0, 3, 0],
         [MAX64 - 5, MAX64, 4], [MIN64 + 5, MIN64, -4]])
    return P


CORE_CLASSES = ["arith", "floordiv", "compare", "bool", "if", "while", "for", "for-body-blocks", "for-continue",
                "for-var-after", "for-var-assign", "late-local", "assign", "call", "forward-call"]


# ------------------------------------------------------------------ random programs
class Gen:
    """Seeded generator of programs of 1-3 functions, <= max_stmts statements, expression depth <= max_depth.

    feats: optional features in use (subset of FEATURES); avoid: construct families not to generate (see probes)."""

    def __init__(self, rng, feats=(), avoid=(), max_funcs=3, max_stmts=25, max_depth=4):
        self.r = rng
        self.feats = set(feats)
        self.avoid = set(avoid)
        self.max_funcs = max_funcs
        self.max_stmts = max_stmts
        self.max_depth = max_depth
        self.budget = 0
        self.funcs = []          # (name, nparams) callable from the function under construction
        self.wcount = 0

    # ---- expressions
    def const(self):
        r = self.r
        c = r.random()
        if c < 0.7:
            v = r.randrange(0, 12)
        elif c < 0.9:
            v = r.choice([16, 100, 255, 1000, 65536, (1 << 31) - 1, 1 << 31, 1 << 32])
        else:
            v = r.choice([1 << 40, (1 << 62) - 1, 1 << 62, 3037000499])
        if r.random() < 0.25 and v > 0:
            return N(L(v)) if "neg" in self.feats else B("-", L(0), L(v))
        return L(v)

    def ops(self):
        ops = ["+", "-", "*", "+", "-"]
        if "floordiv" not in self.avoid:
            ops += ["//", "//"]
        if "mod" in self.feats:
            ops += ["%", "%"]
        return ops

    def expr(self, names, d):
        r = self.r
        c = r.random()
        if d <= 1 or c < 0.3:
            if names and r.random() < 0.72:
                return V(r.choice(names))
            return self.const()
        if c < 0.85:
            op = r.choice(self.ops())
            a = self.expr(names, d - 1)
            if op in ("//", "%") and r.random() < 0.8:
                b = self.const()              # mostly non-zero divisors
                if b == L(0):
                    b = L(3)
            else:
                b = self.expr(names, d - 1)
            return B(op, a, b)
        if c < 0.9 and "neg" in self.feats:
            return N(self.expr(names, d - 1))
        if self.funcs and c < 0.97:
            f, k = r.choice(self.funcs)
            return CALL(f, *[self.expr(names, max(1, d - 2)) for _ in range(k)])
        return self.expr(names, d - 1)

    def cmp(self, names, d):
        r = self.r
        if "chain" in self.feats and r.random() < 0.12:
            return CMPC(self.expr(names, d), r.choice(CMP), self.expr(names, d), r.choice(CMP), self.expr(names, d))
        return CMPC(self.expr(names, d), r.choice(CMP), self.expr(names, d))

    def cond(self, names, d=2, depth=2):
        r = self.r
        c = r.random()
        if depth <= 0 or c < 0.55:
            return self.cmp(names, d)
        if c < 0.75:
            return AND(*[self.cond(names, d, depth - 1) for _ in range(r.choice([2, 2, 3]))])
        if c < 0.93:
            return OR(*[self.cond(names, d, depth - 1) for _ in range(r.choice([2, 2, 3]))])
        if "not" in self.feats:
            return NOT(self.cond(names, d, depth - 1))
        return self.cmp(names, d)

    # ---- statements
    def simple(self, st, protect=()):
        """asg / aug / tup / call statement; st = set of names bound at this point (updated)."""
        r = self.r
        names = sorted(st)
        c = r.random()
        targets = [n_ for n_ in self.locals if n_ not in protect]
        bound_targets = [n_ for n_ in names if n_ not in protect and n_ in self.assignable]
        d = r.randrange(1, self.max_depth + 1)
        if c < 0.4 or not bound_targets:
            pool = targets if "late-local" not in self.avoid else bound_targets or targets
            t = r.choice(pool)
            s = ASG(t, self.expr(names, d))
            st.add(t)
            return s
        if c < 0.8:
            t = r.choice(bound_targets)
            ops = ["+", "-", "*", "+", "-"] + (["//"] if "floordiv" not in self.avoid else []) + (["%"] if "mod" in self.feats else [])
            op = r.choice(ops)
            e = self.expr(names, max(1, d - 1))
            if op in ("//", "%") and r.random() < 0.6:
                e = L(r.randrange(1, 9))
            return AUG(t, op, e)
        if c < 0.92 and len(bound_targets) >= 2:
            k = r.choice([2, 2, 3])
            ts = r.sample(bound_targets, min(k, len(bound_targets)))
            return TUP(ts, [self.expr(names, 2) for _ in ts])
        if self.funcs:
            f, k = r.choice(self.funcs)
            return EXPR(CALL(f, *[self.expr(names, 2) for _ in range(k)]))
        return PASS

    def block(self, st, n, loops, protect=(), simple_only=False):
        """n statements (about); loops = tuple of enclosing loop kinds, innermost last."""
        out = []
        for _ in range(n):
            if self.budget <= 0:
                break
            out.append(self.stmt(st, loops, protect, simple_only))
            if out[-1]["k"] in ("break", "continue", "ret"):
                break                                   # nothing after a jump (dead code is not generated)
        return out or [PASS]

    def stmt(self, st, loops, protect, simple_only):
        r = self.r
        self.budget -= 1
        names = sorted(st)
        c = r.random()
        depth = len(loops)
        if simple_only or self.budget < 2:
            return self.simple(st, protect)
        if loops and r.random() < 0.14:
            # a jump under a condition
            kind = r.choice(["break", "continue"])
            if kind == "continue" and loops[-1] == "for" and "for-continue" in self.avoid:
                kind = "break"
            self.budget -= 1
            return IF(self.cond(names), [BREAK if kind == "break" else CONTINUE])
        if c < 0.42:
            return self.simple(st, protect)
        if c < 0.62:
            t_st, f_st = set(st), set(st)
            t = self.block(t_st, r.randrange(1, 4), loops, protect)
            f = []
            cc = r.random()
            if cc < 0.45:
                f = self.block(f_st, r.randrange(1, 3), loops, protect)
            elif cc < 0.6:                                 # elif
                e_st = set(st)
                self.budget -= 1
                f = [IF(self.cond(names), self.block(e_st, r.randrange(1, 3), loops, protect),
                        self.block(f_st, 1, loops, protect) if r.random() < 0.5 else [])]
                f_st &= e_st
            bound = (t_st & f_st) if f else set(names)      # bound on every path through the statement
            s = IF(self.cond(names), t, f)
            st.clear()
            st.update(bound | set(names))
            return s
        if c < 0.74 and depth < 3:
            return self.while_(st, loops, protect)
        if c < 0.9 and depth < 3:
            return self.for_(st, loops, protect)
        if c < 0.95 and self.budget > 3:
            self.budget -= 1
            return IF(self.cond(names), [RET(self.expr(names, 2))])
        return self.simple(st, protect)

    def while_(self, st, loops, protect):
        """A while loop that is made to terminate by a dedicated counter (most of the time)."""
        r = self.r
        names = sorted(st)
        w = "w%d" % self.wcount
        self.wcount += 1
        bound = r.randrange(1, 7)
        c = r.random()
        guard = CMPC(V(w), "<", L(bound))
        if c < 0.5:
            cond = guard
        elif c < 0.8:
            cond = AND(guard, self.cond(names, 2, 1))
        else:
            cond = AND(OR(self.cond(names, 2, 0), self.cond(names, 2, 0)), guard)
        b_st = set(st) | {w}
        body = [AUG(w, "+", L(1))] + self.block(b_st, r.randrange(1, 4), loops + ("while",), tuple(protect) + (w,))
        self.pre.append(ASG(w, L(0)))
        return {"k": "seq2", "ss": [ASG(w, L(0)), WHILE(cond, body)]}

    def for_(self, st, loops, protect):
        r = self.r
        names = sorted(st)
        free = [v for v in ("i", "j", "k") if v not in protect]
        if not free:
            return self.simple(st, protect)
        special = r.random()
        var = free[0]
        pre = []
        if special < 0.1 and "for-var-after" not in self.avoid:
            # the target is an existing local / parameter (read afterwards like any other variable)
            cands = [n_ for n_ in names if n_ not in protect and n_ in self.assignable]
            if cands:
                var = r.choice(cands)
        nargs = r.choice([1, 1, 2, 2, 3]) if "range3" in self.feats else r.choice([1, 1, 2])

        def small():
            c = r.random()
            if c < 0.55:
                return L(r.randrange(0, 7))
            if c < 0.7:
                return C(-r.randrange(1, 5))
            if names and c < 0.9:
                return V(r.choice(names))
            return self.expr(names, 2)

        args = [small() for _ in range(nargs)]
        if nargs == 3:
            v = r.choice([1, 2, 3, -1, -2])
            args[2] = (N(L(-v)) if "neg" in self.feats else C(v)) if v < 0 else L(v)
        b_st = set(st) | {var}
        inner_protect = tuple(protect)
        added = False
        if "for-var-assign" in self.avoid or r.random() < 0.85:
            inner_protect += (var,)
        elif var not in self.assignable:
            self.assignable.add(var)                        # the target may be assigned in the suite
            added = True
        body = self.block(b_st, r.randrange(1, 4), loops + ("for",), inner_protect, simple_only="for-body-blocks" in self.avoid)
        if added:
            self.assignable.discard(var)
        if "for-var-after" not in self.avoid and var in ("i", "j", "k") and r.random() < 0.3:
            # bound before the loop, so that it may be read after a loop that does not iterate
            pre = [ASG(var, self.const())]
            self.pre.append(pre[0])
            st.add(var)
        return {"k": "seq2", "ss": pre + [FOR(var, args, body)]}

    @staticmethod
    def flatten(ss):
        out = []
        for s in ss:
            if s["k"] == "seq2":
                out.extend(Gen.flatten(s["ss"]))
                continue
            if s["k"] == "if":
                s = IF(s["c"], Gen.flatten(s["t"]), Gen.flatten(s["f"]))
            elif s["k"] == "while":
                s = WHILE(s["c"], Gen.flatten(s["b"]))
            elif s["k"] == "for":
                s = FOR(s["v"], s["args"], Gen.flatten(s["b"]))
            out.append(s)
        return out

    def function(self, name, nparams, stmts):
        r = self.r
        params = ["a", "b", "c"][:nparams]
        self.locals = ["x", "y", "z", "t"][:r.randrange(2, 5)]
        self.assignable = set(params) | set(self.locals)
        self.pre = []
        self.budget = stmts
        st = set(params)
        body = []
        # initial bindings: all locals when late binding is to be avoided, else some of them
        for v in self.locals:
            if "late-local" in self.avoid or r.random() < 0.6:
                body.append(ASG(v, self.expr(sorted(st), 2)))
                st.add(v)
                self.budget -= 1
        body += self.block(st, max(1, self.budget), ())
        body = self.flatten(body)
        if "late-local" in self.avoid:
            # while counters are first bound inside suites otherwise: bind them all at the top
            seen = set()
            tops = []
            for s in self.pre:
                if s["n"] not in seen:
                    seen.add(s["n"])
                    tops.append(s)
            body = tops + body
        if not body or body[-1]["k"] != "ret":
            body.append(RET(self.expr(sorted(st), 3)))
        return FN(name, params, body)

    def program(self):
        for _ in range(40):
            prog = self.program1()
            if count_stmts(prog) <= self.max_stmts:
                break
        return prog

    def program1(self):
        r = self.r
        nf = r.choice([1, 2, 2, 3, 3][:max(1, self.max_funcs * 2 - 1)])
        total = r.randrange(6, self.max_stmts + 1)
        shares = [1] * nf
        for _ in range(total - nf):
            shares[r.randrange(nf) if r.random() < 0.5 else nf - 1] += 1
        sigs = [("f%d" % k, r.randrange(1, 4)) for k in range(nf)]
        forward = nf > 1 and "forward-call" not in self.avoid and r.random() < 0.15
        funcs = []
        self.wcount = 0
        for k, (name, np_) in enumerate(sigs):
            self.funcs = list(sigs[:k])
            funcs.append(self.function(name, np_, shares[k]))
        prog = {"funcs": funcs, "main": sigs[-1][0]}
        if forward:
            # move main to the front: its callees are then defined after it
            prog["funcs"] = [funcs[-1]] + funcs[:-1]
        return prog
