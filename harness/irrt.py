"""Round trips of ppci IR through its two serialisations (properties C15 and C16).

Own helper of engines/c15.py and engines/c16.py:
  * `project(m)`      exact, serialiser-independent projection of a live ir.Module for the structural
                      clauses of tla/IRRoundTrip.tla (exact types incl. blob<size:align>, integer constants as
                      sign + base-256 magnitude, float constants by IEEE-754 bit pattern, raw alignment,
                      initial values part by part, volatility and names kept in separate planes);
  * `feature_modules` hand-built modules, one per construct of ppci.ir (operator, constant class, ...);
  * `corpus`          feature modules + harness/irgen.py modules + IR of C programs before/after optimize;
  * `round_trip`      drives the real writer/reader pair and records what happened;
  * `run`             the engine body shared by C15 (fmt = "text") and C16 (fmt = "json").
Python never judges: every record goes to TLC (IRRoundTrip_Eval, IR.tla); this file only names the
violations TLC reports (keys) from the `clause` / `diag` variables of the failing state.
"""
import contextlib
import io
import random
import struct

from . import absprog, core, optcorpus, project_ir, watchdog
from .tlc import MachineryError

INTS = ["i8", "u8", "i16", "u16", "i32", "u32", "i64", "u64"]
BITS = {"i8": 8, "u8": 8, "i16": 16, "u16": 16, "i32": 32, "u32": 32, "i64": 64, "u64": 64, "ptr": 64}
BINOPS = ["+", "-", "*", "/", "%", "|", "&", "^", "<<", ">>", "rol", "ror"]
CONDS = ["==", "<", ">", ">=", "<=", "!="]


# ---------------------------------------------------------------------------------------------
# projection
# ---------------------------------------------------------------------------------------------
def tystr(ty):
    """Exact type: name, or blob<size:align>."""
    from ppci import ir

    if isinstance(ty, ir.BlobDataTyp):
        return "blob<%s:%s>" % (ty.size, ty.alignment)
    return str(getattr(ty, "name", ty))


def mag_bytes(v):
    v = abs(v)
    out = []
    while v:
        out.append(v & 255)
        v >>= 8
    return out


def const_value(v):
    """Exact, type-stable encoding of a constant's Python value."""
    if isinstance(v, bool):
        return {"cls": "bool", "neg": False, "mag": [int(v)]}
    if isinstance(v, int):
        return {"cls": "int", "neg": v < 0, "mag": mag_bytes(v)}
    if isinstance(v, float):
        return {"cls": "float", "neg": False, "mag": list(struct.pack("<d", v))}
    return {"cls": "other:" + type(v).__name__, "neg": False, "mag": [ord(c) & 255 for c in repr(v)[:40]]}


def project(m):
    from ppci import ir

    gidx = {}
    externals, variables, inits = [], [], []
    n = 0
    for e in m.externals:
        n += 1
        gidx[id(e)] = n
        if isinstance(e, ir.ExternalFunction):
            externals.append({"k": "function", "name": e.name, "ret": tystr(e.return_ty),
                              "args": [tystr(t) for t in e.argument_types]})
        elif isinstance(e, ir.ExternalProcedure):
            externals.append({"k": "procedure", "name": e.name, "ret": "", "args": [tystr(t) for t in e.argument_types]})
        elif isinstance(e, ir.ExternalVariable):
            externals.append({"k": "variable", "name": e.name, "ret": "", "args": []})
        else:
            externals.append({"k": "other:" + type(e).__name__, "name": str(getattr(e, "name", "?")), "ret": "", "args": []})
    for v in m.variables:
        n += 1
        gidx[id(v)] = n
        variables.append({"name": v.name, "binding": str(v.binding), "size": v.amount, "align": v.alignment})
        parts = []
        if v.value is not None:
            for part in v.value:
                if isinstance(part, (bytes, bytearray)):
                    parts.append({"k": "bytes", "b": list(part), "name": ""})
                elif isinstance(part, tuple) and len(part) == 2 and isinstance(part[1], str):
                    parts.append({"k": "ref:" + tystr(part[0]), "b": [], "name": part[1]})
                else:
                    parts.append({"k": "other", "b": [], "name": repr(part)[:60]})
        inits.append({"has": v.value is not None, "parts": parts})
    funcs = list(m.functions)
    for f in funcs:
        n += 1
        gidx[id(f)] = n
    return {"name": m.name, "externals": externals, "variables": variables, "inits": inits,
            "funcs": [_project_function(f, gidx) for f in funcs]}


def _project_function(f, gidx):
    from ppci import ir

    ids = {}
    for p in f.arguments:
        ids.setdefault(id(p), len(ids) + 1)
    blocks = list(f.blocks)
    for b in blocks:
        for ins in b.instructions:
            if isinstance(ins, ir.Value):
                ids.setdefault(id(ins), len(ids) + 1)
    bidx = {id(b): k + 1 for k, b in enumerate(blocks)}
    dangling = []

    def op(v):
        if v is None:
            return 0
        if id(v) in ids:
            return ids[id(v)]
        if id(v) in gidx:
            return -gidx[id(v)]
        ids[id(v)] = len(ids) + 1          # used here but defined nowhere in this function / module
        dangling.append("%s %s:%s" % (type(v).__name__, tystr(getattr(v, "ty", "?")), getattr(v, "name", "?")))
        return ids[id(v)]

    def blk(b):
        return bidx.get(id(b), 0)

    out_blocks, out_vol, out_names = [], [], []
    for b in blocks:
        il, vl, nl = [], [], []
        for ins in b.instructions:
            r = {"k": type(ins).__name__, "ty": tystr(ins.ty) if isinstance(ins, ir.Value) else ""}
            vol = False
            if isinstance(ins, ir.Const):
                r.update(cv=const_value(ins.value))
            elif isinstance(ins, ir.Binop):
                r.update(op=ins.operation, a=op(ins.a), b=op(ins.b))
            elif isinstance(ins, ir.Unop):
                r.update(op=ins.operation, a=op(ins.a))
            elif isinstance(ins, ir.Cast):
                r.update(a=op(ins.src))
            elif isinstance(ins, ir.AddressOf):
                r.update(a=op(ins.src))
            elif isinstance(ins, ir.Alloc):
                r.update(amount=ins.amount, align=ins.alignment)
            elif isinstance(ins, ir.LiteralData):
                r.update(data=list(ins.data))
            elif isinstance(ins, ir.Load):
                r.update(a=op(ins.address))
                vol = bool(ins.volatile)
            elif isinstance(ins, ir.Store):
                r.update(a=op(ins.address), b=op(ins.value))
                vol = bool(ins.volatile)
            elif isinstance(ins, ir.CopyBlob):
                r.update(a=op(ins.dst), b=op(ins.src), amount=ins.amount)
            elif isinstance(ins, (ir.FunctionCall, ir.ProcedureCall)):
                r.update(c=op(ins.callee), args=[op(a) for a in ins.arguments])
            elif isinstance(ins, ir.Phi):
                inc = [{"p": blk(pb), "v": op(val)} for pb, val in ins.inputs.items()]
                inc.sort(key=lambda x: (x["p"], x["v"]))
                r.update(inc=inc)
            elif isinstance(ins, ir.Undefined):
                pass
            elif isinstance(ins, ir.Jump):
                r.update(t=blk(ins.target))
            elif isinstance(ins, ir.CJump):
                r.update(a=op(ins.a), b=op(ins.b), cond=ins.cond, yes=blk(ins.lab_yes), no=blk(ins.lab_no))
            elif isinstance(ins, ir.Return):
                r.update(a=op(ins.result))
            elif isinstance(ins, ir.Exit):
                pass
            elif isinstance(ins, ir.InlineAsm):
                r.update(template=str(ins.template), clobbers=[str(c) for c in ins.clobbers],
                         ins=[op(v) for v in ins.input_values], outs=[op(v) for v in ins.output_values])
            else:
                r.update(text=str(ins)[:80])
            il.append(r)
            vl.append(vol)
            nl.append(ins.name if isinstance(ins, ir.Value) else "")
        out_blocks.append(il)
        out_vol.append(vl)
        out_names.append(nl)
    return {
        "sig": {"name": f.name, "binding": str(f.binding),
                "kind": "function" if isinstance(f, ir.Function) else "procedure",
                "ret": tystr(f.return_ty) if isinstance(f, ir.Function) else "",
                "ptys": [tystr(p.ty) for p in f.arguments]},
        "pnames": [p.name for p in f.arguments],
        "entry": blk(f.entry),
        "bnames": [b.name for b in blocks],
        "blocks": out_blocks,
        "vol": out_vol,
        "vnames": out_names,
        "dangling": dangling,
    }


# ---------------------------------------------------------------------------------------------
# feature tags (naming of violations only)
# ---------------------------------------------------------------------------------------------
def const_class(cv, ty):
    if cv["cls"] == "float":
        v = struct.unpack("<d", bytes(cv["mag"]))[0]
        rep = repr(v)
        if rep in ("inf", "-inf", "nan"):
            return "float-nonfinite"
        return "float-exp" if "e" in rep else "float"
    if cv["cls"] == "int":
        return "int-neg" if cv["neg"] else "int"
    return cv["cls"]


def ins_tag(r, vol=False):
    k = r["k"]
    if k == "Const":
        return "Const:" + const_class(r["cv"], r["ty"])
    if k in ("Binop", "Unop"):
        return "%s:%s" % (k, r["op"])
    if k in ("Load", "Store") and vol:
        return k + ":volatile"
    return k


def tags_of(p):
    """Feature tags of a projected module in print / serialisation order (distinct, first occurrence)."""
    out = []

    def add(t):
        if t not in out:
            out.append(t)

    for e in p["externals"]:
        add("external:" + e["k"])
    for v, i in zip(p["variables"], p["inits"]):
        add("variable")
        if i["has"]:
            add("variable:init")
    for f in p["funcs"]:
        add(f["sig"]["kind"])
        for bl, vl in zip(f["blocks"], f["vol"]):
            for r, vol in zip(bl, vl):
                add(ins_tag(r, vol))
    return out


# ---------------------------------------------------------------------------------------------
# hand-built feature modules
# ---------------------------------------------------------------------------------------------
class FB:
    """Tiny builder: one module, functions with straight-line or hand-wired blocks."""

    def __init__(self, name="feat"):
        from ppci import ir
        from ppci.binutils.debuginfo import DebugDb

        self.ir = ir
        self.m = ir.Module(name, debug_db=DebugDb())
        self.n = 0
        self.fn = None
        self.block = None

    def T(self, name):
        return getattr(self.ir, name) if isinstance(name, str) else name

    def nm(self, p="v"):
        self.n += 1
        return "%s%d" % (p, self.n)

    def function(self, name, ret, ptys=(), binding=None):
        ir = self.ir
        binding = binding or ir.Binding.GLOBAL
        fn = ir.Function(name, binding, self.T(ret)) if ret else ir.Procedure(name, binding)
        self.m.add_function(fn)
        self.fn = fn
        params = []
        for k, t in enumerate(ptys):
            p = ir.Parameter("p%d" % k, self.T(t) if isinstance(t, str) else t)
            fn.add_parameter(p)
            params.append(p)
        self.block = self.new_block("entry")
        fn.entry = self.block
        return fn, params

    def new_block(self, label):
        b = self.ir.Block("%s_%s" % (self.fn.name, label))
        self.fn.add_block(b)
        return b

    def at(self, block):
        self.block = block

    def emit(self, ins):
        self.block.add_instruction(ins)
        return ins

    def const(self, v, ty, name=None):
        return self.emit(self.ir.Const(v, name or self.nm("c"), self.T(ty)))

    def binop(self, a, op, b, ty):
        return self.emit(self.ir.Binop(a, op, b, self.nm("b"), self.T(ty)))

    def cast(self, v, ty):
        return self.emit(self.ir.Cast(v, self.nm("k"), self.T(ty)))

    def ret(self, v):
        self.emit(self.ir.Return(v))

    def exit(self):
        self.emit(self.ir.Exit())

    def alloc(self, size, align):
        a = self.emit(self.ir.Alloc(self.nm("alloc"), size, align))
        return a, self.emit(self.ir.AddressOf(a, self.nm("ap")))


FLOATS = [0.0, -0.0, 1.0, -1.0, 0.5, -2.25, 0.1, 1.0 / 3.0, 123456789.125, 3.0e10, 1e16, 1e20, -1e20, 1e-7, -1e-7,
          1.5e300, 2.5e-300, 5e-324, 1.7976931348623157e308, 2.2250738585072014e-308, 3.4028234663852886e38,
          1.401298464324817e-45, float("inf"), float("-inf"), float("nan")]


def feature_modules(thorough=False):
    """[(key, module, [(fn, param types)...] functions to execute in IR.tla)]"""
    from ppci import ir

    out = []

    def done(key, fb, runs=()):
        out.append((key, fb.m, list(runs)))

    # --- binary operators: one module per operator, one function per integer type (+ floats, ptr)
    for op in BINOPS:
        fb = FB("binop")
        runs = []
        for t in INTS:
            fn, (a, b) = fb.function("f_" + t, t, [t, t])
            if op in ("/", "%"):
                b = fb.binop(b, "|", fb.const(1, t), t)
            if op in ("<<", ">>", "rol", "ror"):
                b = fb.binop(b, "&", fb.const(7, t), t)
            fb.ret(fb.binop(a, op, b, t))
            runs.append((fn.name, [t, t]))
        if op in ("+", "-", "*", "/"):
            for t in ("f32", "f64"):
                fn, (a, b) = fb.function("f_" + t, t, [t, t])
                fb.ret(fb.binop(a, op, b, t))
        if op in ("+", "-"):
            fn, (a, b) = fb.function("f_ptr", "ptr", ["ptr", "ptr"])
            fb.ret(fb.binop(a, op, b, "ptr"))
        done("binop:" + op, fb, runs)
    # --- unary operators
    for op in ("-", "~"):
        fb = FB("unop")
        runs = []
        for t in INTS + (["f32", "f64"] if op == "-" else []):
            fn, (a,) = fb.function("f_" + t, t, [t])
            fb.ret(fb.emit(ir.Unop(op, a, fb.nm("u"), fb.T(t))))
            if t in INTS:
                runs.append((fn.name, [t]))
        done("unop:" + op, fb, runs)
    # --- casts: every integer type to every other; float and pointer casts
    fb = FB("casts")
    runs = []
    for s in INTS:
        fn, (a,) = fb.function("from_" + s, "u64", [s])
        acc = fb.cast(a, "u64")
        for d in INTS:
            c = fb.cast(fb.cast(a, d), "u64")
            acc = fb.binop(fb.binop(acc, "*", fb.const(31, "u64"), "u64"), "+", c, "u64")
        fb.ret(acc)
        runs.append((fn.name, [s]))
    done("cast:int", fb, runs)
    fb = FB("fcasts")
    fn, (a, x, p) = fb.function("f", "f64", ["i32", "f64", "ptr"])
    y = fb.cast(fb.cast(a, "f32"), "f64")
    z = fb.cast(fb.cast(fb.cast(x, "i64"), "u8"), "f64")
    q = fb.cast(fb.cast(fb.cast(p, "u64"), "ptr"), "i64")
    fb.ret(fb.binop(fb.binop(y, "+", z, "f64"), "+", fb.cast(q, "f64"), "f64"))
    done("cast:float+ptr", fb)
    # --- integer constants: boundaries of every type, positive / negative / huge
    for t in INTS + ["ptr"]:
        fb = FB("iconst")
        b = BITS[t]
        signed = t[0] == "i"
        vals = [0, 1, 2, 127, 128, 255, 256, 65535, 65536, (1 << 31) - 1, 1 << 31, (1 << 32) - 1, 1 << 32,
                (1 << 63) - 1, 1 << 63, (1 << 64) - 1, 1234567890123456789, -1, -2, -128, -129, -32768, -(1 << 31),
                -(1 << 31) - 1, -(1 << 63), -1234567890123456789]
        lo, hi = (-(1 << (b - 1)), (1 << (b - 1)) - 1) if signed else (0, (1 << b) - 1)
        vals = sorted({v for v in vals if lo <= v <= hi} | {lo, hi})
        rt = t if t != "ptr" else "u64"
        fn, (a,) = fb.function("f", rt, [rt])
        acc = a
        for v in vals:
            c = fb.const(v, t)
            if t == "ptr":
                c = fb.cast(c, "u64")
            acc = fb.binop(fb.binop(acc, "*", fb.const(3, rt), rt), "^", c, rt)
        fb.ret(acc)
        done("const:%s" % t, fb, [("f", [rt])])
    # --- floating point constants: one module per value and type
    for t in ("f64", "f32"):
        for v in FLOATS:
            fb = FB("fconst")
            fn, _ = fb.function("f", t, [])
            fb.ret(fb.const(v, t))
            done("const:%s:%r" % (t, v), fb)
    fb = FB("fconst_int")     # integer-valued Python int as a float constant (as the C front-end may emit)
    fn, _ = fb.function("f", "f64", [])
    fb.ret(fb.binop(fb.const(2, "f64"), "+", fb.const(-3, "f64"), "f64"))
    done("const:f64:int-valued", fb)

    # --- global variables
    def reader_of(fb, var, nbytes):
        """f() = sum of 31^k * byte k of var, over at most 8 byte positions (first, last, middle ones)."""
        fn, _ = fb.function("f", "u32", [])
        acc = fb.const(0, "u32")
        pos = sorted(set(range(min(nbytes, 4))) | {nbytes - 1, nbytes // 2, nbytes // 2 - 1 if nbytes > 1 else 0})
        for k in pos:
            addr = var if k == 0 else fb.binop(var, "+", fb.const(k, "ptr"), "ptr")
            byte = fb.emit(ir.Load(addr, fb.nm("ld"), ir.u8))
            acc = fb.binop(fb.binop(acc, "*", fb.const(31, "u32"), "u32"), "+", fb.cast(byte, "u32"), "u32")
        fb.ret(acc)

    def var_module(key, nbytes, *args, **kw):
        fb = FB("gvar")
        v = ir.Variable("g", *args, **kw)
        fb.m.add_variable(v)
        reader_of(fb, v, nbytes)
        done(key, fb, [("f", [])])

    var_module("variable:uninitialised", 4, ir.Binding.GLOBAL, 4, 4)
    var_module("variable:local-binding", 4, ir.Binding.LOCAL, 4, 4)
    for al in (1, 2, 8, 16):
        var_module("variable:align%d" % al, 3, ir.Binding.GLOBAL, 3, al)
    var_module("variable:init:bytes", 4, ir.Binding.GLOBAL, 4, 4, value=b"\x01\x02\xfe\xff")
    var_module("variable:init:zero-bytes", 4, ir.Binding.GLOBAL, 4, 4, value=b"\x00\x00\x00\x00")
    var_module("variable:init:all-byte-values", 256, ir.Binding.LOCAL, 256, 1, value=bytes(range(256)))
    var_module("variable:init:tuple-of-bytes", 6, ir.Binding.GLOBAL, 6, 2, value=(b"\x01\x00", b"\xfe\xff", b"\x03\x00"))
    var_module("variable:init:short", 8, ir.Binding.GLOBAL, 8, 4, value=b"\x09\x08")
    var_module("variable:init:empty", 2, ir.Binding.GLOBAL, 2, 1, value=(b"",))
    fb = FB("gref")     # references to other globals inside an initial value
    g0 = ir.Variable("target", ir.Binding.LOCAL, 3, 1, value=b"hi\x00")
    g1 = ir.Variable("g", ir.Binding.GLOBAL, 20, 8, value=(b"\x05\x00\x00\x00", (ir.ptr, "target"), (ir.ptr, "f"), b"\x07"))
    fb.m.add_variable(g0)
    fb.m.add_variable(g1)
    reader_of(fb, g1, 4)
    done("variable:init:references", fb, [("f", [])])
    # --- externals
    fb = FB("externals")
    xv = ir.ExternalVariable("xvar")
    xf = ir.ExternalFunction("xfun", [ir.i32, ir.ptr], ir.i32)
    xf0 = ir.ExternalFunction("xfun0", [], ir.u8)
    xfb = ir.ExternalFunction("xfunb", [ir.BlobDataTyp(19, 8), ir.f64, ir.u64], ir.f32)
    xp = ir.ExternalProcedure("xproc", [ir.i32, ir.i32])
    xp0 = ir.ExternalProcedure("xproc0", [])
    for x in (xv, xf, xf0, xfb, xp, xp0):
        fb.m.add_external(x)
    fn, (a,) = fb.function("f", "i32", ["i32"])
    r = fb.emit(ir.FunctionCall(xf, [a, xv], fb.nm("r"), ir.i32))
    fb.emit(ir.ProcedureCall(xp, [r, a]))
    fb.emit(ir.ProcedureCall(xp0, []))
    fb.ret(fb.binop(r, "+", fb.cast(fb.emit(ir.FunctionCall(xf0, [], fb.nm("r"), ir.u8)), "i32"), "i32"))
    done("externals", fb, [("f", ["i32"])])
    # --- calls: forward reference, procedure, recursion, call through a pointer value, blob argument
    fb = FB("calls")
    fn_f, (a,) = fb.function("f", "i32", ["i32"])
    f_block = fb.block
    fn_h, (x, y) = fb.function("later", "i32", ["i32", "i32"], binding=ir.Binding.LOCAL)
    zero = fb.const(0, "i32")
    rec, base = fb.new_block("rec"), fb.new_block("base")
    fb.emit(ir.CJump(x, ">", zero, rec, base))
    fb.at(rec)
    r = fb.emit(ir.FunctionCall(fn_h, [fb.binop(x, "-", fb.const(1, "i32"), "i32"), y], fb.nm("r"), ir.i32))
    fb.ret(fb.binop(r, "+", y, "i32"))
    fb.at(base)
    fb.ret(y)
    fn_p, (v,) = fb.function("proc", None, ["i32"])
    g = ir.Variable("sink", ir.Binding.GLOBAL, 4, 4)
    fb.m.add_variable(g)
    fb.emit(ir.Store(v, g))
    fb.exit()
    fb.fn = fn_f
    fb.at(f_block)
    a3 = fb.binop(a, "&", fb.const(3, "i32"), "i32")
    r1 = fb.emit(ir.FunctionCall(fn_h, [a3, a], fb.nm("r"), ir.i32))
    fb.emit(ir.ProcedureCall(fn_p, [r1]))
    fpv = fb.cast(fb.cast(fn_h, "u64"), "ptr")
    r2 = fb.emit(ir.FunctionCall(fpv, [fb.const(0, "i32"), r1], fb.nm("r"), ir.i32))
    fb.ret(r2)
    done("calls", fb, [("f", ["i32"])])
    fb = FB("blobarg")
    xb = ir.ExternalFunction("takes_blob", [ir.BlobDataTyp(12, 4), ir.i32], ir.i32)
    fb.m.add_external(xb)
    fn, (s, a) = fb.function("f", "i32", [ir.BlobDataTyp(12, 4), "i32"])
    al, ap = fb.alloc(12, 4)
    fb.emit(ir.Store(s, ap))
    fb.emit(ir.AddressOf(s, fb.nm("sa")))
    fb.ret(fb.emit(ir.FunctionCall(xb, [al, a], fb.nm("r"), ir.i32)))
    done("blob-parameter", fb)
    # --- memory: alloc / addressof / load / store of every type, literal data, memcpy, volatile
    fb = FB("memory")
    runs = []
    for t in INTS + ["ptr", "f32", "f64"]:
        size = BITS.get(t, 32 if t == "f32" else 64) // 8
        fn, (a,) = fb.function("m_" + t, t, [t])
        al, ap = fb.alloc(size * 2, size)
        ap2 = fb.binop(ap, "+", fb.const(size, "ptr"), "ptr")
        fb.emit(ir.Store(a, ap))
        fb.emit(ir.Store(fb.emit(ir.Load(ap, fb.nm("ld"), fb.T(t))), ap2))
        fb.ret(fb.emit(ir.Load(ap2, fb.nm("ld"), fb.T(t))))
        if t in INTS:
            runs.append((fn.name, [t]))
    done("memory:alloc+load+store", fb, runs)
    for size, al_ in ((1, 1), (3, 1), (8, 8), (100, 16), (4096, 4)):
        fb = FB("alloc")
        fn, _ = fb.function("f", "u8", [])
        al, ap = fb.alloc(size, al_)
        fb.emit(ir.Store(fb.const(size & 255, "u8"), ap))
        fb.ret(fb.emit(ir.Load(ap, fb.nm("ld"), ir.u8)))
        done("alloc:%d:%d" % (size, al_), fb, [("f", [])] if size <= 100 else [])
    for data in (b"\x00", b"\x01\x02\x03\x04", bytes(range(256)), b"hello world\x00", b"\xff" * 9):
        fb = FB("literal")
        fn, _ = fb.function("f", "u8", [])
        lit = fb.emit(ir.LiteralData(data, fb.nm("lit")))
        la = fb.emit(ir.AddressOf(lit, fb.nm("la")))
        la = fb.binop(la, "+", fb.const(len(data) - 1, "ptr"), "ptr")
        fb.ret(fb.emit(ir.Load(la, fb.nm("ld"), ir.u8)))
        done("literal:%d-bytes" % len(data), fb, [("f", [])])
    fb = FB("memcpy")
    g = ir.Variable("src", ir.Binding.GLOBAL, 8, 8, value=bytes([1, 2, 3, 4, 5, 6, 7, 8]))
    d = ir.Variable("dst", ir.Binding.GLOBAL, 8, 8)
    fb.m.add_variable(g)
    fb.m.add_variable(d)
    fn, (a,) = fb.function("f", "u32", ["u32"])
    al, ap = fb.alloc(8, 8)
    fb.emit(ir.CopyBlob(ap, g, 8))
    fb.emit(ir.Store(a, ap))
    fb.emit(ir.CopyBlob(d, ap, 8))
    fb.ret(fb.emit(ir.Load(fb.binop(d, "+", fb.const(4, "ptr"), "ptr"), fb.nm("ld"), ir.u32)))
    done("memcpy", fb, [("f", ["u32"])])
    for what in ("load", "store", "both"):
        fb = FB("volatile")
        g = ir.Variable("port", ir.Binding.GLOBAL, 4, 4, value=b"\x2a\x00\x00\x00")
        fb.m.add_variable(g)
        fn, (a,) = fb.function("f", "i32", ["i32"])
        fb.emit(ir.Store(a, g, volatile=what in ("store", "both")))
        v1 = fb.emit(ir.Load(g, fb.nm("ld"), ir.i32, volatile=what in ("load", "both")))
        v2 = fb.emit(ir.Load(g, fb.nm("ld"), ir.i32))
        fb.ret(fb.binop(v1, "+", v2, "i32"))
        done("volatile:" + what, fb, [("f", ["i32"])])
    # --- undefined values (never used)
    fb = FB("undefined")
    fn, (a,) = fb.function("f", "i32", ["i32"])
    for t in ("i32", "u8", "f64", "ptr"):
        fb.emit(ir.Undefined(fb.nm("undef"), fb.T(t)))
    fb.ret(a)
    done("undefined", fb, [("f", ["i32"])])
    # --- control flow: every condition, phi nodes (diamond, loop, pointer / float typed), procedure + exit
    for cond in CONDS:
        fb = FB("cjmp")
        runs = []
        for t in ("i8", "u8", "i32", "u32", "i64", "u64"):
            fn, (a, b) = fb.function("f_" + t, "i32", [t, t])
            yes, no = fb.new_block("yes"), fb.new_block("no")
            fb.emit(ir.CJump(a, cond, b, yes, no))
            fb.at(yes)
            fb.ret(fb.const(1, "i32"))
            fb.at(no)
            fb.ret(fb.const(0, "i32"))
            runs.append((fn.name, [t, t]))
        done("cjmp:" + cond, fb, runs)
    fb = FB("phis")
    fn, (a, b) = fb.function("f", "i32", ["i32", "i32"])
    entry = fb.block
    then_b, else_b, join, head, body, exit_b = [fb.new_block(x) for x in ("then", "else", "join", "head", "body", "exit")]
    zero = fb.const(0, "i32")
    one = fb.const(1, "i32")
    fb.emit(ir.CJump(a, "<", b, then_b, else_b))
    fb.at(then_b)
    t1 = fb.binop(a, "+", one, "i32")
    fb.emit(ir.Jump(join))
    fb.at(else_b)
    e1 = fb.binop(b, "*", b, "i32")
    fb.emit(ir.Jump(join))
    fb.at(join)
    ph = fb.emit(ir.Phi("phi", ir.i32))           # the C front-end names its phis "phi"
    ph.set_incoming(then_b, t1)
    ph.set_incoming(else_b, e1)
    lim = fb.binop(ph, "&", fb.const(7, "i32"), "i32")
    fb.emit(ir.Jump(head))
    fb.at(head)
    cnt = fb.emit(ir.Phi(fb.nm("cnt"), ir.i32))
    acc = fb.emit(ir.Phi(fb.nm("acc"), ir.i32))
    fb.emit(ir.CJump(cnt, "<", lim, body, exit_b))
    fb.at(body)
    nxt = fb.binop(cnt, "+", one, "i32")
    acc2 = fb.binop(acc, "+", cnt, "i32")
    fb.emit(ir.Jump(head))
    cnt.set_incoming(join, zero)
    cnt.set_incoming(body, nxt)                   # value defined after its use in print order
    acc.set_incoming(join, ph)
    acc.set_incoming(body, acc2)
    fb.at(exit_b)
    fb.ret(acc)
    done("phi:diamond+loop", fb, [("f", ["i32", "i32"])])
    fb = FB("phis2")
    fn, (a, p, q, x, y) = fb.function("f", "f64", ["i8", "ptr", "ptr", "f64", "f64"])
    l, r_, j = fb.new_block("l"), fb.new_block("r"), fb.new_block("j")
    fb.emit(ir.CJump(a, "!=", fb.const(0, "i8"), l, r_))
    fb.at(l)
    fb.emit(ir.Jump(j))
    fb.at(r_)
    fb.emit(ir.Jump(j))
    fb.at(j)
    pp = fb.emit(ir.Phi(fb.nm("pp"), ir.ptr))
    pp.set_incoming(l, p)
    pp.set_incoming(r_, q)
    pf = fb.emit(ir.Phi(fb.nm("pf"), ir.f64))
    pf.set_incoming(l, x)
    pf.set_incoming(r_, y)
    pa = fb.emit(ir.Phi(fb.nm("pa"), ir.i8))
    pa.set_incoming(l, a)
    pa.set_incoming(r_, a)
    fb.emit(ir.Store(pa, pp))
    fb.ret(pf)
    done("phi:ptr+float+small-int", fb)
    fb = FB("layout")       # a dominating definition printed after its use (blocks listed out of dominance order)
    fn, (a,) = fb.function("f", "u8", ["u8"])
    b_use, b_def = fb.new_block("use"), fb.new_block("def")
    fb.emit(ir.Jump(b_def))
    fb.at(b_def)
    d1 = fb.binop(a, "+", fb.const(1, "u8"), "u8")
    dp = fb.cast(d1, "ptr")
    fb.emit(ir.Jump(b_use))
    fb.at(b_use)
    u1 = fb.binop(d1, "*", d1, "u8")
    fb.ret(fb.binop(u1, "+", fb.cast(dp, "u8"), "u8"))
    done("layout:use-printed-before-definition", fb, [("f", ["u8"])])
    fb = FB("procs")
    g = ir.Variable("out", ir.Binding.GLOBAL, 4, 4)
    fb.m.add_variable(g)
    fn, (a,) = fb.function("f", None, ["i32"])
    fb.emit(ir.Store(a, g))
    fb.exit()
    fn2, _ = fb.function("local_proc", None, [], binding=ir.Binding.LOCAL)
    fb.exit()
    fn3, (a,) = fb.function("local_fn", "u16", ["u16"], binding=ir.Binding.LOCAL)
    fb.ret(a)
    done("procedure+bindings", fb, [("f", ["i32"]), ("local_fn", ["u16"])])
    fb = FB("names")        # value names the C front-end really produces for parameters / temporaries
    fn, (a, b) = fb.function("f", "i32", ["i32", "i32"])
    a.name, b.name = "load", "cast"
    v = fb.emit(ir.Binop(a, "+", b, "phi", ir.i32))
    w = fb.emit(ir.Binop(v, "-", a, "alloc", ir.i32))
    x_ = fb.emit(ir.Binop(w, "*", b, "call", ir.i32))
    y_ = fb.emit(ir.Binop(x_, "^", v, "literal", ir.i32))
    z_ = fb.emit(ir.Binop(y_, "|", a, "store", ir.i32))
    u_ = fb.emit(ir.Binop(z_, "&", b, "i32", ir.i32))
    fb.ret(fb.emit(ir.Binop(u_, "+", u_, "return", ir.i32)))
    done("names:keyword-like", fb, [("f", ["i32", "i32"])])
    fb = FB("names2")       # names of the words the formats use for operators / newer constructs
    fn, (a, b) = fb.function("f", "i32", ["i32", "i32"])
    a.name, b.name = "rol", "ror"
    blk_rol = fb.new_block("x")
    blk_rol.name = "rol"
    other = fb.new_block("other")
    fb.emit(ir.CJump(a, "<", b, blk_rol, other))
    fb.at(blk_rol)
    v = fb.emit(ir.Binop(a, "rol", fb.binop(b, "&", fb.const(7, "i32"), "i32"), "inf", ir.i32))
    fb.emit(ir.Jump(other))
    fb.at(other)
    ph = fb.emit(ir.Phi("phi", ir.i32))
    ph.set_incoming(blk_rol, v)
    ph.set_incoming(fn.entry, a)
    w = fb.emit(ir.Binop(ph, "ror", fb.binop(a, "&", fb.const(3, "i32"), "i32"), "nan", ir.i32))
    x_ = fb.emit(ir.Binop(w, "+", ph, "undefined", ir.i32))
    y_ = fb.emit(ir.Binop(x_, "-", w, "volatile", ir.i32))
    fb.ret(fb.emit(ir.Binop(y_, "^", x_, "memcpy", ir.i32)))
    done("names:operator-words", fb, [("f", ["i32", "i32"])])
    fb = FB("names3")       # leading underscores: the C front-end calls string literals __txt_const_<n>
    g = ir.Variable("__txt_const_0", ir.Binding.LOCAL, 3, 1, value=b"hi\x00")
    fb.m.add_variable(g)
    fn, (a,) = fb.function("_start", "u8", ["u8"])
    a.name = "_a"
    ld = fb.emit(ir.Load(g, "_tmp", ir.u8))
    fb.ret(fb.emit(ir.Binop(ld, "+", a, "__r", ir.u8)))
    done("names:leading-underscore", fb, [("_start", ["u8"])])

    # --- local / global name collisions: a parameter or local value may carry the name of a module-level symbol
    # (the C front-end names a parameter after the C identifier: `int total; int twice(int total)`); references
    # inside the function mean the local one.  Operand kinds that the constructors do not type-check (store
    # value, call argument, return, cast) and same-typed operands (ptr binop, ptr phi) re-read "successfully"
    # when bound to the wrong symbol, so only structure / behaviour show it.
    fb = FB("collide1")      # i32 parameter named like a global variable / an external / a function
    gtot = ir.Variable("total", ir.Binding.GLOBAL, 4, 4, value=b"\x05\x00\x00\x00")
    gsink = ir.Variable("sink", ir.Binding.GLOBAL, 4, 4)
    fb.m.add_variable(gtot)
    fb.m.add_variable(gsink)
    xshow = ir.ExternalProcedure("show", [ir.i32])
    xemit = ir.ExternalProcedure("emit", [ir.i32])
    xget = ir.ExternalFunction("get", [ir.i32], ir.i32)
    for x in (xshow, xemit, xget):
        fb.m.add_external(x)
    fn_h2, (hx,) = fb.function("helper2", "i32", ["i32"])
    fb.ret(fb.binop(hx, "*", fb.const(5, "i32"), "i32"))
    fn_h, (hx,) = fb.function("helper", "i32", ["i32"])
    fb.ret(fb.binop(hx, "+", fb.const(1, "i32"), "i32"))
    fn, (p_total, p_show, p_helper) = fb.function("f", "i32", ["i32", "i32", "i32"])
    p_total.name, p_show.name, p_helper.name = "total", "show", "helper"
    fb.emit(ir.Store(p_total, gsink))                          # store value
    fb.emit(ir.ProcedureCall(xemit, [p_show]))                 # call argument (procedure)
    r = fb.emit(ir.FunctionCall(fn_h2, [p_helper], "get", ir.i32))  # call argument; result named like the external
    fb.emit(ir.ProcedureCall(xemit, [r]))
    c = fb.cast(p_total, "i64")                                # cast source
    fb.emit(ir.Store(c, fb.alloc(8, 8)[1]))
    fb.ret(r)                                                  # return of a local named like an external
    done("collision:i32-locals-named-like-globals", fb, [("f", ["i32", "i32", "i32"])])
    fb = FB("collide2")      # same type (ptr) as the global: even type-checked operands (binop, phi) accept the wrong one
    gbuf = ir.Variable("buf", ir.Binding.GLOBAL, 8, 8, value=bytes(range(8)))
    fb.m.add_variable(gbuf)
    xv = ir.ExternalVariable("xbuf")
    fb.m.add_external(xv)
    fn_g, _ = fb.function("getp", "ptr", [])
    fb.ret(fb.const(64, "ptr"))
    fn, (p_buf, p_xbuf, sel) = fb.function("f", "u64", ["ptr", "ptr", "i8"])
    p_buf.name, p_xbuf.name = "buf", "xbuf"
    l, r_, j = fb.new_block("l"), fb.new_block("r"), fb.new_block("j")
    sum_ = fb.emit(ir.Binop(p_buf, "+", p_xbuf, "getp", ir.ptr))        # binop; result named like a function
    fb.emit(ir.CJump(sel, "==", fb.const(0, "i8"), l, r_))
    fb.at(l)
    fb.emit(ir.Jump(j))
    fb.at(r_)
    fb.emit(ir.Jump(j))
    fb.at(j)
    ph = fb.emit(ir.Phi("phi", ir.ptr))
    ph.set_incoming(l, p_buf)                                           # phi inputs
    ph.set_incoming(r_, sum_)
    fb.ret(fb.binop(fb.cast(ph, "u64"), "^", fb.cast(sum_, "u64"), "u64"))
    done("collision:ptr-locals-named-like-globals", fb, [("f", ["ptr", "ptr", "i8"])])
    fb = FB("collide3")      # local values (not parameters) named like a global variable and like an earlier function
    gcnt = ir.Variable("count", ir.Binding.GLOBAL, 4, 4, value=b"\x09\x00\x00\x00")
    fb.m.add_variable(gcnt)
    fn_h, (hx,) = fb.function("scale", "i32", ["i32"])
    fb.ret(fb.binop(hx, "*", fb.const(3, "i32"), "i32"))
    gout = ir.Variable("out", ir.Binding.GLOBAL, 4, 4)
    fb.m.add_variable(gout)
    fn_k, (kx,) = fb.function("scale2", "i32", ["i32"])
    fb.ret(fb.binop(kx, "-", fb.const(2, "i32"), "i32"))
    fn, (a, b) = fb.function("f", "i32", ["i32", "i32"])
    gl = fb.emit(ir.Load(gcnt, "f", ir.i32))                            # global read while no local `count` exists yet;
    v_count = fb.emit(ir.Binop(a, "+", b, "count", ir.i32))             # value named like its own function
    v_scale = fb.emit(ir.FunctionCall(fn_k, [v_count], "scale", ir.i32))
    fb.emit(ir.Store(v_scale, gout))
    fb.emit(ir.Store(v_count, fb.alloc(4, 4)[1]))
    fb.ret(fb.emit(ir.Binop(fb.binop(v_count, "-", v_scale, "i32"), "+", gl, "sum", ir.i32)))
    done("collision:values-named-like-globals", fb, [("f", ["i32", "i32"])])
    fb = FB("collide4")      # a function that uses a global AND a local value of the same name: the serialised
    gres = ir.Variable("result", ir.Binding.GLOBAL, 4, 4)     # forms name both `result` (C: `int result; ... result = h(a);`)
    fb.m.add_variable(gres)
    fn_h, (hx,) = fb.function("h", "i32", ["i32"])
    fb.ret(fb.binop(hx, "+", fb.const(1, "i32"), "i32"))
    fn, (a,) = fb.function("f", "i32", ["i32"])
    v = fb.emit(ir.FunctionCall(fn_h, [a], "result", ir.i32))
    fb.emit(ir.Store(v, gres))
    fb.ret(v)
    done("collision:global-and-local-both-used", fb, [("f", ["i32"])])

    # --- the same forward-referenced value in several operand slots of one instruction: both readers create one
    # placeholder per name and patch it by replace_by() once the definition arrives, so every slot must be patched
    fb = FB("dupfwd1")       # function values defined later in the module, passed twice / three times
    xsink = ir.ExternalProcedure("sink2", [ir.ptr, ir.ptr])
    fb.m.add_external(xsink)
    fn_ap, (pf, pg, px) = fb.function("apply2", "i32", ["ptr", "ptr", "i32"])
    r1 = fb.emit(ir.FunctionCall(pf, [px], fb.nm("r"), ir.i32))
    fb.ret(fb.emit(ir.FunctionCall(pg, [r1], fb.nm("r"), ir.i32)))
    fn_ap3, (qf, qg, qh, qx) = fb.function("apply3", "i32", ["ptr", "ptr", "ptr", "i32"])
    r1 = fb.emit(ir.FunctionCall(qf, [qx], fb.nm("r"), ir.i32))
    r2 = fb.emit(ir.FunctionCall(qg, [r1], fb.nm("r"), ir.i32))
    fb.ret(fb.emit(ir.FunctionCall(qh, [r2], fb.nm("r"), ir.i32)))
    fn_c, (cx,) = fb.function("f", "i32", ["i32"])
    f_block = fb.block
    fn_inc, (ix,) = fb.function("inc", "i32", ["i32"])               # defined after its users
    fb.ret(fb.binop(ix, "+", fb.const(1, "i32"), "i32"))
    fn_dbl, (dx,) = fb.function("dbl", "i32", ["i32"])
    fb.ret(fb.binop(dx, "*", fb.const(2, "i32"), "i32"))
    fb.fn = fn_c
    fb.at(f_block)
    a1 = fb.emit(ir.FunctionCall(fn_ap, [fn_inc, fn_inc, cx], fb.nm("r"), ir.i32))
    a2 = fb.emit(ir.FunctionCall(fn_ap3, [fn_dbl, fn_inc, fn_dbl, a1], fb.nm("r"), ir.i32))
    a3 = fb.emit(ir.FunctionCall(fn_ap3, [fn_inc, fn_inc, fn_inc, a2], fb.nm("r"), ir.i32))
    fb.emit(ir.ProcedureCall(xsink, [fn_dbl, fn_dbl]))
    fb.ret(a3)
    done("forward:same-function-value-in-several-argument-slots", fb, [("f", ["i32"])])
    fb = FB("dupfwd2")       # local values used twice by one instruction that is printed before their definition
    fn_h, (hx, hy) = fb.function("pair", "i32", ["i32", "i32"])
    fb.ret(fb.binop(fb.binop(hx, "*", fb.const(3, "i32"), "i32"), "+", hy, "i32"))
    xp = ir.ExternalProcedure("note", [ir.i32, ir.i32])
    fb.m.add_external(xp)
    gq = ir.Variable("cell", ir.Binding.GLOBAL, 8, 8)
    fb.m.add_variable(gq)
    fn, (a,) = fb.function("f", "i32", ["i32"])
    b_use, b_def = fb.new_block("use"), fb.new_block("def")
    fb.emit(ir.Jump(b_def))
    fb.at(b_def)
    d1 = fb.binop(a, "+", fb.const(1, "i32"), "i32")
    dp = fb.binop(gq, "+", fb.const(4, "ptr"), "ptr")
    fb.emit(ir.Jump(b_use))
    fb.at(b_use)
    b2 = fb.binop(d1, "*", d1, "i32")                                       # both binop operands (first: the readers
    c1 = fb.emit(ir.FunctionCall(fn_h, [d1, d1], fb.nm("r"), ir.i32))       # type a placeholder by its first use)
    fb.emit(ir.ProcedureCall(xp, [d1, d1]))                                 # function / procedure call arguments
    fb.emit(ir.Store(b2, dp))
    fb.emit(ir.CopyBlob(dp, dp, 4))                                         # both memcpy operands
    yes, no = fb.new_block("yes"), fb.new_block("no")
    fb.emit(ir.CJump(d1, "==", d1, yes, no))                                # both cjmp operands
    fb.at(yes)
    fb.ret(fb.binop(c1, "+", b2, "i32"))
    fb.at(no)
    fb.ret(c1)
    done("forward:same-local-value-in-several-operand-slots", fb, [("f", ["i32"])])

    # --- several DISTINCT blob types in one module (every BlobDataTyp has the name "blob"): each position that
    # carries a type must keep its own size and alignment
    fb = FB("blobs")
    B84, B88, B124, B31, B1616 = (ir.BlobDataTyp(8, 4), ir.BlobDataTyp(8, 8), ir.BlobDataTyp(12, 4),
                                  ir.BlobDataTyp(3, 1), ir.BlobDataTyp(16, 16))
    x1 = ir.ExternalFunction("take_pair", [B84, B88], ir.i32)
    x2 = ir.ExternalFunction("make_wide", [ir.i32], B88)
    x3 = ir.ExternalProcedure("take_three", [B124, B31, B1616, B84])
    for x in (x1, x2, x3):
        fb.m.add_external(x)
    fn_mk, (mv,) = fb.function("make_pair", B84, ["i32"])
    al, ap = fb.alloc(8, 4)
    fb.emit(ir.Store(mv, ap))
    fb.emit(ir.Store(mv, fb.binop(ap, "+", fb.const(4, "ptr"), "ptr")))
    fb.ret(al)
    fn_mw, (mv,) = fb.function("make_wide2", B88, ["i32"])
    al, ap = fb.alloc(8, 8)
    fb.emit(ir.Store(fb.cast(mv, "i64"), ap))
    fb.ret(al)
    fn, (pp, pw, pt, sel) = fb.function("sum", "i32", [B84, B88, B124, "i32"])
    fb.emit(ir.Undefined(fb.nm("undef"), B31))
    fb.emit(ir.Undefined(fb.nm("undef"), B1616))
    c1 = fb.emit(ir.FunctionCall(fn_mk, [sel], fb.nm("r"), B84))            # call results of blob type
    c2 = fb.emit(ir.FunctionCall(fn_mw, [sel], fb.nm("r"), B88))
    c3 = fb.emit(ir.FunctionCall(x2, [sel], fb.nm("r"), B88))
    l, r_, j = fb.new_block("l"), fb.new_block("r"), fb.new_block("j")
    fb.emit(ir.CJump(sel, ">", fb.const(0, "i32"), l, r_))
    fb.at(l)
    fb.emit(ir.Jump(j))
    fb.at(r_)
    fb.emit(ir.Jump(j))
    fb.at(j)
    ph1 = fb.emit(ir.Phi(fb.nm("ph"), B88))                                 # phis of blob type
    ph1.set_incoming(l, pw)
    ph1.set_incoming(r_, c2)
    ph2 = fb.emit(ir.Phi(fb.nm("ph"), B84))
    ph2.set_incoming(l, pp)
    ph2.set_incoming(r_, c1)
    fb.emit(ir.ProcedureCall(x3, [pt, fb.alloc(3, 1)[0], fb.alloc(16, 16)[0], ph2]))
    fb.emit(ir.Store(c3, fb.alloc(8, 8)[1]))
    fb.ret(fb.emit(ir.FunctionCall(x1, [ph2, ph1], fb.nm("r"), ir.i32)))
    done("blob:distinct-blob-types-in-signatures-calls-phis", fb)
    return out


C_SOURCES = [
    ("c:floats+structs", r"""
struct S { int a; double d; char c[3]; };
extern int ext(struct S s, double x);
volatile int vg = 7;
static short arr[3] = {1,-2,3};
int *pg = &vg;
char *msg = "hi";
double dd = 1e20;
float ff = -0.0000001;
struct S gs = {1, 2.5, {'a','b',0}};
int call(int load, int cast) { int phi = load + cast; return ~phi; }
double g(double x, struct S s) { struct S t = s; t.d = x * 1e20 - 0.0000001 + 0.1; vg = vg + 1; return t.d / 3.0; }
int (*fp)(int,int) = call;
int h(int a) { return fp(a, a) + ext(gs, 1.0/0.0) + arr[1]; }
""", "call", ["i32", "i32"]),
    ("c:volatile+loops", r"""
volatile unsigned char port;
unsigned int table[4] = {1u, 0x80000000u, 0xffffffffu, 7u};
long long big = -9223372036854775807LL;
unsigned long long ubig = 18446744073709551615ULL;
static int acc;
void tick(void) { port = port + 1; acc += 3; }
int f(int n) { int i; int s = 0; for (i = 0; i < (n & 7); i++) { tick(); s += table[i & 3] >> 3; }
  if (big < 0) s = -s; if (ubig > 5) s ^= 0x55; return s + acc + port; }
""", "f", ["i32"]),
    ("c:keyword-like-names", r"""
int memcpy(int inf, int nan, int undefined, int rol, int ror, int volatile_, int phi, int load, int store)
{ return (inf - nan) * undefined + (rol | ror) - volatile_ + phi * load - store; }
int f(int a, int b) { return memcpy(a, b, 3, a, b, 5, a, b, 7) + -a; }
""", "f", ["i32", "i32"]),
    ("c:local-global-name-collisions", r"""
extern void show(int v);
int total = 5;
int sink;
int helper(int x) { return x + 1; }
int twice(int total) { sink = total; show(total); return total + total; }
int pick(int show, int helper) { return show > helper ? show : helper; }
int arr_user(int n) { int helper[3]; helper[0] = n; helper[1] = n + 1; helper[2] = 7; return helper[n & 1] + helper[2]; }
int f(int a) { return twice(a) + arr_user(a) + helper(a) + pick(a, 3) + total; }
""", "f", ["i32"]),
    ("c:globals-named-like-front-end-temporaries", r"""
int tmp = 3;
int num = 4;
int phi = 1;
int alloca = 2;
int typecast = 9;
int g_other = 6;
int step(int x) { return x * g_other; }
int f(int n) { int s = n + 1; int i; char c = n; for (i = 0; i < (n & 3); i++) { s = s * 2 + step(i) - (s > 4 ? i : c); }
  return s > 10 ? s - 2 : s + 5; }
""", "f", ["i32"]),
    ("c:function-pointer-passed-twice-before-its-definition", r"""
int inc(int x);
int dbl(int x);
int apply2(int (*f)(int), int (*g)(int), int x) { return g(f(x)); }
int apply3(int (*f)(int), int (*g)(int), int (*h)(int), int x) { return h(g(f(x))); }
int f(int x) { return apply2(inc, inc, x) + apply3(dbl, inc, dbl, x) + apply3(inc, inc, inc, 1); }
int inc(int x) { return x + 1; }
int dbl(int x) { return x * 2; }
""", "f", ["i32"]),
    ("c:two-struct-types-by-value", r"""
struct pair { int a; int b; };
struct wide { long long v; };
struct odd { char c[3]; };
extern int ext_sum(struct pair p, struct wide w);
extern struct wide ext_wide(struct odd o);
struct pair gp = {1, 2};
struct wide gw = {5};
struct odd go = {{7, 8, 9}};
int sum(struct pair p, struct wide w, struct odd o) { return p.a + p.b + (int)w.v + o.c[1]; }
struct pair mkpair(int a) { struct pair p; p.a = a; p.b = a + 1; return p; }
struct wide mkwide(int a) { struct wide w; w.v = a; return w; }
int f(int a) { struct pair p = mkpair(a); struct wide w = mkwide(a); return sum(p, w, go) + sum(gp, gw, go) + ext_sum(p, w); }
""", "f", ["i32"]),
    ("c:global-and-temporary-of-the-same-name", r"""
int result;
int h(int x) { return x + 1; }
int f(int a) { result = h(a); return result; }
""", "f", ["i32"]),
]


# ---------------------------------------------------------------------------------------------
# corpus
# ---------------------------------------------------------------------------------------------
class Item:
    def __init__(self, key, module, runs, ext=None, vecs=None, src=""):
        self.key = key
        self.m = module
        self.runs = runs          # [(fn, [param types])]
        self.ext = ext or []
        self.vecs = vecs          # {fn: [vector...]} or None (generate)
        self.src = src


def corpus(ctx, n_irgen, n_c):
    from ppci import api

    from . import irgen

    rng = ctx.rng
    items = []
    for k, (key, m, runs) in enumerate(feature_modules(ctx.tier == "thorough")):
        if ctx.tier != "thorough" and len(runs) > 3:
            # quick tier: execute three of the per-type functions (rotating, so all types occur over the operators);
            # structure and text of all of them are always compared
            runs = [runs[(k + j * 3) % len(runs)] for j in range(3)]
        items.append(Item("feature:" + key, m, runs, src="harness/irrt.py feature_modules(): " + key))
    for key, src, fn, ptys in C_SOURCES:
        for lvl in (None, "2"):
            try:
                with contextlib.redirect_stdout(io.StringIO()), contextlib.redirect_stderr(io.StringIO()):  # front-end warnings
                    m = optcorpus.compile_c(src, "x86_64")
                if lvl:
                    api.optimize(m, level=lvl)
            except Exception:
                ctx.cov["frontend_rejected"] = ctx.cov.get("frontend_rejected", 0) + 1
                continue
            items.append(Item("%s%s" % (key, ":O" + lvl if lvl else ""), m, [(fn, ptys)],
                              ext=[{"name": x, "rets": [project_ir.limbs(k, 4) for k in (3, 1, 4, 1, 5, 9)]} for x in ("ext", "show", "ext_sum")],
                              src=src))
    for _ in range(n_irgen):
        seed = rng.randrange(1 << 30)
        try:
            m, info = irgen.gen_module(random.Random(seed))
        except Exception:
            ctx.cov["irgen_failed"] = ctx.cov.get("irgen_failed", 0) + 1
            continue
        prng = random.Random(seed ^ 0x5A5A)
        ext = [{"name": x, "rets": [project_ir.limbs(prng.randrange(-5, 40), 4) for _ in range(6)]} for x in info["externs"]]
        items.append(Item("irgen:%d" % seed, m, [(info["main"], info["params"])], ext=ext,
                          src="harness/irgen.py gen_module(random.Random(%d))" % seed))
    for _ in range(n_c):
        seed = rng.randrange(1 << 30)
        prng = random.Random(seed)
        prog = absprog.Gen(prng, max_funcs=3, max_stmts=6, max_depth=3).program()
        src = absprog.render_c(prog)
        f, vecs = absprog.arg_vectors(prog, prng, 4)
        ext = optcorpus.ext_stubs(prog, prng)
        for lvl in (None, "2"):
            try:
                with contextlib.redirect_stdout(io.StringIO()), contextlib.redirect_stderr(io.StringIO()):  # front-end warnings
                    m = optcorpus.compile_c(src, "x86_64")
                if lvl:
                    api.optimize(m, level=lvl)
            except Exception:
                ctx.cov["frontend_rejected"] = ctx.cov.get("frontend_rejected", 0) + 1
                continue
            ptys = [absprog_ty(p["ty"]) for p in f["params"]]
            items.append(Item("cprog:%d%s" % (seed, ":O" + lvl if lvl else ""), m, [(f["n"], ptys)], ext=ext,
                              vecs={f["n"]: vecs}, src=src))
    return items


def absprog_ty(t):
    return "i8" if t == "c8" else t


# ---------------------------------------------------------------------------------------------
# driving the real serialisers
# ---------------------------------------------------------------------------------------------
def _lines(text):
    return [[ord(c) if ord(c) < 65536 else 65535 for c in ln] for ln in text.split("\n")]


def _guard(stage, fn, seconds=20.0):
    """-> (value, None) or (None, "error:<stage>:<ExcClass>")."""
    try:
        return watchdog.limited(fn, seconds, what="irrt:" + stage), None
    except (MachineryError, KeyboardInterrupt):
        raise
    except BaseException as e:  # noqa: BLE001  (SystemExit from a mutant is an outcome too)
        return None, "error:%s:%s" % (stage, type(e).__name__)


def round_trip(fmt, m):
    """Serialise and re-read module m with the real code.  Returns a dict:
       outcome "ok" | "error:<stage>:<class>", m2, and for text the two printed forms."""
    from ppci.irutils import io as irio
    from ppci.irutils import reader, writer

    def text_of(mod, verify):
        f = io.StringIO()
        writer.print_module(mod, file=f, verify=verify)
        return f.getvalue()

    res = {"outcome": "ok", "m2": None, "t1": None, "t2": None}
    if fmt == "text":
        t1, err = _guard("write", lambda: text_of(m, True))
        if err is None and not isinstance(t1, str):
            err = "error:write:NotText"
        if err:
            res["outcome"] = err
            return res
        res["t1"] = t1
        m2, err = _guard("read", lambda: reader.read_module(io.StringIO(t1)))
        if err:
            res["outcome"] = err
            return res
        res["m2"] = m2
        t2, err = _guard("reprint", lambda: text_of(m2, False))
        if err is None and not isinstance(t2, str):
            err = "error:reprint:NotText"
        if err:
            res["outcome"] = err
            return res
        res["t2"] = t2
    else:
        js, err = _guard("write", lambda: irio.to_json(m))
        if err is None and not isinstance(js, str):
            err = "error:write:NotText"
        if err:
            res["outcome"] = err
            return res
        res["t1"] = js
        m2, err = _guard("read", lambda: irio.from_json(js))
        if err:
            res["outcome"] = err
            return res
        res["m2"] = m2
    return res


# ---------------------------------------------------------------------------------------------
# engine body
# ---------------------------------------------------------------------------------------------
CLAUSES = ["ReadBack", "SameModuleName", "SameExternals", "SameVariables", "SameInitialValues", "SameSignatures",
           "SameBlocks", "SameInstructions", "SameVolatility", "SameNames", "NoDanglingValues", "SameText"]

EVAL_CFG = """INIT Init
NEXT Next
CHECK_DEADLOCK FALSE
""" + "".join("INVARIANT %s\n" % c for c in CLAUSES)

MC_CFG = """INIT Init
NEXT Next
CHECK_DEADLOCK FALSE
INVARIANT TypeOK
INVARIANT Complete
INVARIANT Localised
INVARIANT DiagSound
INVARIANT TextLaw
"""


def _well_formed(m):
    from ppci.irutils import verify

    try:
        verify.verify_module(m)
        return True
    except Exception:
        return False


def records_for(ctx, fmt, items):
    recs = []
    for it in items:
        # front-end output that ppci's own verifier rejects is outside "every well-formed module" (C03's business);
        # hand-built and irgen modules are well-formed by construction and are never skipped
        if it.key.startswith(("cprog:", "c:")) and not _well_formed(it.m):
            ctx.cov["skipped_not_wellformed"] = ctx.cov.get("skipped_not_wellformed", 0) + 1
            continue
        try:
            p1 = project(it.m)
            b1 = project_ir.project_module(it.m, 8)
        except Exception as e:
            raise MachineryError("cannot project corpus module %s: %r" % (it.key, e))
        rt = round_trip(fmt, it.m)
        rec = {"id": it.key, "fmt": fmt, "outcome": rt["outcome"], "a": p1}
        p2 = b2 = None
        if rt["outcome"] == "ok":
            try:
                p2 = project(rt["m2"])
                b2 = project_ir.project_module(rt["m2"], 8)
            except Exception as e:  # what came back is not even a module the projector can walk
                rec["outcome"] = "error:result:%s" % type(e).__name__
                p2 = b2 = None
        if p2 is not None:
            rec["b"] = p2
            if fmt == "text":
                rec["ta"] = _lines(rt["t1"])
                rec["tb"] = _lines(rt["t2"])
        recs.append({"rec": rec, "item": it, "tags": tags_of(p1), "b1": b1, "b2": b2})
    return recs


def judge_structure(ctx, prop, fmt, recs):
    """IRRoundTrip_Eval over all records.  Returns {record index: set of failed clause tags}."""
    if not recs:
        return {}
    path = ctx.trace_file([r["rec"] for r in recs])
    res = ctx.tlc("IRRoundTrip_Eval", EVAL_CFG, label="round trips (%s)" % fmt, env={"TRACE_FILE": path},
                  continue_=True, workers=8, heap="8g")
    import os

    os.unlink(path)
    ctx.cov["traces_validated_against_impl"] += len(recs)
    expect = 1 + 64 + sum(1 for _ in recs) * (1 + len(CLAUSES))
    if res.distinct != expect:
        raise MachineryError("IRRoundTrip_Eval explored %d states, %d expected" % (res.distinct, expect))
    # first pass: which feature modules cannot be serialised / re-read at all (for naming only)
    fails = []
    for e in res.errors:
        st = e.last
        idx = st.get("i")
        if e.kind != "invariant" or not isinstance(idx, int) or not (1 <= idx <= len(recs)):
            raise MachineryError("unexpected TLC error in IRRoundTrip_Eval: %s\n%s" % (e, e.text[:1500]))
        fails.append((idx - 1, e.name, st.get("diag")))
    # naming only: a construct is blamed for an unreadable module if it occurs in a feature module that TLC
    # rejected under ReadBack and in no feature module that was read back
    failed_idx = {idx for idx, clause, _ in fails if clause == "ReadBack"}
    good_tags = set(BASELINE_TAGS)
    for k, r in enumerate(recs):
        if r["item"].key.startswith("feature:") and k not in failed_idx:
            good_tags.update(r["tags"])
    bad_tags = {}
    for k in sorted(failed_idx):
        r = recs[k]
        if r["item"].key.startswith("feature:"):
            for t in r["tags"]:
                if t not in good_tags:
                    bad_tags.setdefault(t, r["rec"]["outcome"])
    diffs = {}
    seen = set()
    for idx, clause, diag in fails:
        r = recs[idx]
        rec = r["rec"]
        detail = describe(clause, diag, rec, r["tags"], bad_tags)
        key = "%s:%s:%s:%s" % (prop, clause, detail["tag"], rec["id"])
        if key in seen:
            continue
        seen.add(key)
        diffs.setdefault(idx, set()).add(detail["tag"] if clause != "ReadBack" else "unreadable")
        ctx.violation(key, "%s round trip of %s: %s" % (fmt, rec["id"], detail["what"]),
                      {"id": rec["id"], "source": r["item"].src, "format": fmt, "clause": clause, "diag": diag,
                       "outcome": rec["outcome"], "detail": detail})
    return diffs


BASELINE_TAGS = ["function", "Return", "Const:int"]


def describe(clause, diag, rec, tags, bad_tags):
    """Name what TLC reported.  `diag` is the spec's first-difference record."""
    a = rec["a"]
    b = rec.get("b")
    if not isinstance(diag, dict):
        return {"tag": "?", "what": "clause %s" % clause}
    if clause == "ReadBack":
        out = rec["outcome"]
        culprit = next((t for t in tags if bad_tags.get(t) == out), None)
        if culprit is None:
            culprit = "construct" if rec["id"].startswith("feature:") else "unattributed"
        return {"tag": "%s:%s" % (out.replace("error:", ""), culprit),
                "what": "outcome %s (module contains %s); the specification has no action for a failing writer/reader" % (
                    out, culprit)}
    pos = diag.get("pos") or [0, 0, 0]
    f, bl, k = (list(pos) + [0, 0, 0])[:3]

    def fname():
        return a["funcs"][f - 1]["sig"]["name"] if 1 <= f <= len(a["funcs"]) else "?"

    def ins_at(p, plane="blocks"):
        try:
            return p["funcs"][f - 1][plane][bl - 1][k - 1]
        except (IndexError, KeyError, TypeError):
            return None

    if clause == "SameInstructions":
        ia, ib = ins_at(a), ins_at(b) if b else None
        tag = ins_tag(ia, False) if ia else "extra-instruction"
        return {"tag": tag, "what": "instruction %d of block %d of %s differs: %s became %s" % (k, bl, fname(), ia, ib)}
    if clause == "SameVolatility":
        ia = ins_at(a)
        tag = (ia or {}).get("k", "?")
        return {"tag": tag, "what": "volatility of instruction %d of block %d of %s: %s became %s" % (
            k, bl, fname(), ins_at(a, "vol"), ins_at(b, "vol") if b else None)}
    if clause == "SameNames":
        def nm(p):
            try:
                fn_ = p["funcs"][f - 1]
                seq = fn_["pnames"] if bl == 1 else fn_["bnames"] if bl == 2 else fn_["vnames"][bl - 3]
                return seq[k - 1]
            except (IndexError, KeyError, TypeError):
                return None
        plane = "parameter" if bl == 1 else "block" if bl == 2 else "value (block %d)" % (bl - 2)
        return {"tag": "names", "what": "%s name %d of %s: %r became %r" % (plane, k, fname(), nm(a), nm(b) if b else None)}
    if clause == "SameInitialValues":
        va = a["inits"][f - 1] if 1 <= f <= len(a["inits"]) else None
        vb = b["inits"][f - 1] if b and 1 <= f <= len(b["inits"]) else None
        name = a["variables"][f - 1]["name"] if 1 <= f <= len(a["variables"]) else "?"
        kinds = sorted({p["k"].split(":")[0] for p in (va or {}).get("parts", [])}) or ["none"]
        return {"tag": "init." + "+".join(kinds), "what": "initial value of variable %s: %s became %s" % (name, _short(va), _short(vb))}
    if clause == "SameText":
        ln = f
        ta, tb = rec.get("ta") or [], rec.get("tb") or []
        la = "".join(map(chr, ta[ln - 1])) if 1 <= ln <= len(ta) else "<end>"
        lb = "".join(map(chr, tb[ln - 1])) if 1 <= ln <= len(tb) else "<end>"
        return {"tag": _line_tag(la), "what": "printed text differs at line %d: %r became %r" % (ln, la, lb)}
    plane = {"SameModuleName": "name", "SameExternals": "externals", "SameVariables": "variables",
             "SameSignatures": "funcs", "SameBlocks": "funcs", "NoDanglingValues": "funcs"}.get(clause)
    xa = _at(a, plane, f, clause)
    xb = _at(b, plane, f, clause) if b else None
    return {"tag": {"SameExternals": "external", "SameVariables": "variable", "SameSignatures": "signature",
                    "SameBlocks": "blocks", "NoDanglingValues": "dangling", "SameModuleName": "name"}.get(clause, clause),
            "what": "%s #%d differs: %s became %s" % (plane, f, _short(xa), _short(xb))}


def _line_tag(line):
    w = line.strip().rstrip(";").split()
    if not w:
        return "blank"
    if w[0] in ("global", "local", "external", "module"):
        return " ".join(w[:2]) if len(w) > 1 else w[0]
    if len(w) >= 4 and w[2] == "=":
        return "assign"
    return w[0]


def _at(p, plane, f, clause):
    try:
        if plane == "name":
            return p["name"]
        x = p[plane][f - 1]
        if clause == "SameSignatures":
            return x["sig"]
        if clause == "SameBlocks":
            return {"entry": x["entry"], "bnames": x["bnames"]}
        if clause == "NoDanglingValues":
            return x["dangling"]
        return x
    except (IndexError, KeyError, TypeError):
        return None


def _short(x):
    s = str(x)
    return s if len(s) < 160 else s[:157] + "..."


def behaviour_cases(ctx, recs, nvec, diffs=None):
    from engines.c02 import TY_BYTES, int_vectors

    cases = []
    for ri, r in enumerate(recs):
        if r["b2"] is None:
            continue
        it = r["item"]
        prng = random.Random(core.case_hash(it.key))
        for fn, ptys in it.runs:
            if any(t not in TY_BYTES for t in ptys):
                continue
            # a module already reported as structurally different gets one vector: a behavioural difference
            # there is a consequence, one demonstration is enough (and TLC prints a full trace per violation)
            nv = 1 if (diffs or {}).get(ri) else nvec
            vecs = (it.vecs or {}).get(fn) or int_vectors(ptys, prng, nvec)
            vecs = [v for v in vecs if len(v) == len(ptys)][:nv] or ([[]] if not ptys else [])
            if not vecs:
                continue
            argv = [[project_ir.limbs(v, TY_BYTES[t]) for v, t in zip(vec, ptys)] for vec in vecs]
            cases.append({"id": "%s:%s" % (it.key, fn), "mods": [r["b1"], r["b2"]], "labels": ["original", "re-read"],
                          "fn": fn, "argv": argv, "vecs": vecs, "ext": it.ext, "fuel": 3000 if ctx.tier == "thorough" else 800,
                          "src": it.src, "ri": ri})
    return cases


IR_CFG = """INIT Init
NEXT Next
CHECK_DEADLOCK FALSE
INVARIANT ObsPreserved
INVARIANT TypeOK
"""


def judge_behaviour(ctx, prop, fmt, cases, diffs):
    if not cases:
        return
    import os

    slim = [{k: c[k] for k in ("id", "mods", "fn", "argv", "ext", "fuel")} for c in cases]
    path = ctx.trace_file(slim)
    res = ctx.tlc("IR", IR_CFG, label="IR behaviours (%s)" % fmt, env={"TRACE_FILE": path}, continue_=True,
                  workers=8, heap="8g")
    os.unlink(path)
    ctx.cov["traces_validated_against_impl"] += sum(len(c["argv"]) for c in cases)
    seen = set()
    for e in res.errors:
        st = e.last
        i, av = st.get("i"), st.get("av")
        if e.kind != "invariant" or e.name != "ObsPreserved" or not isinstance(i, int) or not (1 <= i <= len(cases)):
            raise MachineryError("unexpected TLC error in IR run: %s\n%s" % (e, e.text[:1500]))
        c = cases[i - 1]
        d = "+".join(sorted(diffs.get(c["ri"], ()))) or "none"
        key = "%s:Behaviour:after=(%s):%s" % (prop, d, c["id"])
        if key in seen:
            continue
        seen.add(key)
        args = c["vecs"][av - 1] if isinstance(av, int) and 1 <= av <= len(c["vecs"]) else "?"
        ctx.violation(key, "%s(%s) behaves differently after the %s round trip: status=%s (%s) ret=%s; structural "
                      "differences reported for this module: %s" % (c["fn"], args, fmt, st.get("status"), st.get("why"),
                                                                    st.get("ret"), d),
                      {"id": c["id"], "source": c["src"], "args": args, "clause": "ObsPreserved", "format": fmt})


def run(ctx, prop, fmt):
    thorough = ctx.tier == "thorough"
    ctx.rule("corpus = hand-built feature modules (one per binary/unary operator x every integer type (+float, ptr), "
             "casts, boundary integer constants of every type, %d float constants x {f32,f64} incl. 1e20, 1e-7, "
             "denormal, max, inf, nan, -0.0, global variables with every initial-value shape, externals, calls, "
             "alloc/load/store of every type, literal data, memcpy, volatile accesses, undefined, every cjmp "
             "condition, phis, block layouts, bindings, keyword-like names) + harness/irgen.py modules + IR of "
             "fixed and generated C programs before and after optimize(level 2); for each module m: m2 = "
             "read(write(m)) with the real code; TLC judges one state per (module, clause) in IRRoundTrip_Eval "
             "(outcome, externals, variables, initial values, signatures, block lists, instructions, volatility, "
             "names%s) and IR.tla executes m and m2 on argument vectors (ObsPreserved); distinct = distinct "
             "modules round-tripped" % (len(FLOATS), ", printed text" if fmt == "text" else ""))
    ctx.assume("harness/irrt.py project() reports a live ir.Module faithfully (data attributes only, no ppci printer / __eq__)")
    ctx.assume("IR.tla is the semantics of ppci IR (floats are outside the model: behaviour of float code is not compared)")
    ctx.note("InlineAsm is not part of the corpus: neither serialisation claims to support it (text prints only the "
             "template, DictWriter raises NotImplementedError by design) and IR.tla has no semantics for it")
    if ctx.only is None:
        res = ctx.tlc("IRRoundTrip_MC", MC_CFG, label="clause decomposition laws", workers=4)
        for e in res.errors:
            raise MachineryError("IRRoundTrip law fails in the specification itself: %s\n%s" % (e, e.text[:1500]))
    items = corpus(ctx, 250 if thorough else 24, 60 if thorough else 5)
    if ctx.only is not None:
        want = (ctx.only.get("case") or {}).get("id", "")
        items = [it for it in items if it.key.startswith("feature:") or it.key == want or want.startswith(it.key + ":")]
    recs = records_for(ctx, fmt, items)
    for r in recs:
        ctx.count(r["rec"]["id"])
    for r in recs[:: max(1, len(recs) // 4)]:
        ctx.sample({"id": r["rec"]["id"], "outcome": r["rec"]["outcome"], "tags": r["tags"][:8]})
    ctx.cov["modules"] = len(recs)
    ctx.cov["modules_read_back"] = sum(1 for r in recs if r["b2"] is not None)
    diffs = judge_structure(ctx, prop, fmt, recs)
    cases = behaviour_cases(ctx, recs, 6 if thorough else 3, diffs)
    ctx.cov["behaviour_cases"] = len(cases)
    judge_behaviour(ctx, prop, fmt, cases, diffs)
