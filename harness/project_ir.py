"""Independent projection of a live ppci.ir.Module into the JSON that IR.tla /
IRWF.tla read (DESIGN §3.5, Appendix A.1).  Written against data attributes
only; no use of ppci's writer, verifier or __eq__.

Local values of a function are numbered 1..N (parameters first, then value
defining instructions in block order; values that are *used* but defined
nowhere in the function are appended and listed in "dangling").  Operands are
integers: >0 local id, <0 minus the 1-based index into "globals", 0 = missing.
"""
from fractions import Fraction

INT_TYPES = {"i8": 1, "i16": 2, "i32": 4, "i64": 8, "u8": 1, "u16": 2, "u32": 4, "u64": 8}


class ProjectionError(Exception):
    pass


def tyname(ty):
    from ppci import ir

    if isinstance(ty, ir.BlobDataTyp):
        return "blob"
    return ty.name


def limbs(v, n):
    v &= (1 << (8 * n)) - 1
    return [(v >> (8 * i)) & 255 for i in range(n)]


def project_module(m, ptr_bytes=8, wf=False):
    from ppci import ir

    gl = []
    gidx = {}

    def gadd(obj, rec):
        gl.append(rec)
        gidx[id(obj)] = len(gl)

    for e in m.externals:
        if isinstance(e, ir.ExternalFunction):
            gadd(e, {"k": "xfn", "name": e.name, "ret": tyname(e.return_ty), "args": [tyname(t) for t in e.argument_types]})
        elif isinstance(e, ir.ExternalProcedure):
            gadd(e, {"k": "xfn", "name": e.name, "ret": "", "args": [tyname(t) for t in e.argument_types]})
        elif isinstance(e, ir.ExternalVariable):
            gadd(e, {"k": "xvar", "name": e.name})
        else:
            gadd(e, {"k": "xvar", "name": getattr(e, "name", "?")})
    for v in m.variables:
        gadd(v, {"k": "var", "name": v.name, "binding": str(v.binding), "size": v.amount, "align": max(1, v.alignment),
                 "hasinit": v.value is not None, "init": None, "_v": v})
    funcs = list(m.functions)
    for fi, f in enumerate(funcs):
        gadd(f, {"k": "fn", "name": f.name, "fi": fi + 1, "binding": str(f.binding)})
    byname = {}
    for i, g in enumerate(gl):
        byname.setdefault(g["name"], i + 1)
    # initial values of variables
    for g in gl:
        if g["k"] != "var":
            continue
        v = g.pop("_v")
        parts = []
        if v.value is not None:
            for part in v.value:
                if isinstance(part, (bytes, bytearray)):
                    parts.append({"k": "b", "b": list(part)})
                elif isinstance(part, tuple) and len(part) == 2 and isinstance(part[1], str):
                    parts.append({"k": "r", "g": byname.get(part[1], 0), "name": part[1]})
                else:
                    parts.append({"k": "x", "repr": repr(part)[:60]})
        g["init"] = parts
    out_funcs = []
    for f in funcs:
        out_funcs.append(_project_function(f, gidx, ptr_bytes, wf))
    return {"name": m.name, "pb": ptr_bytes, "globals": gl, "funcs": out_funcs}


def _project_function(f, gidx, pb, wf):
    from ppci import ir

    ids = {}
    names = []

    def define(v):
        if id(v) not in ids:
            ids[id(v)] = len(ids) + 1
            names.append(v.name)

    for p in f.arguments:
        define(p)
    blocks = list(f.blocks)
    for b in blocks:
        for ins in b.instructions:
            if isinstance(ins, ir.Value):
                define(ins)
    ndef = len(ids)
    dangling = []
    bidx = {id(b): i + 1 for i, b in enumerate(blocks)}

    def op(v):
        if v is None:
            return 0
        if id(v) in ids:
            return ids[id(v)]
        if id(v) in gidx:
            return -gidx[id(v)]
        if isinstance(v, ir.GlobalValue):
            return 0  # global not in this module
        define(v)  # used but not defined in this function
        dangling.append(ids[id(v)])
        return ids[id(v)]

    def blk(b):
        return bidx.get(id(b), 0)

    def sty(v):
        return tyname(v.ty) if v is not None and hasattr(v, "ty") else ""

    out_blocks = []
    for b in blocks:
        ins_out = []
        for ins in b.instructions:
            r = {"k": "?", "d": ids.get(id(ins), 0) if isinstance(ins, ir.Value) else 0,
                 "ty": tyname(ins.ty) if isinstance(ins, ir.Value) else ""}
            if isinstance(ins, ir.Const):
                r["k"] = "const"
                t = r["ty"]
                if t in INT_TYPES or t == "ptr":
                    n = INT_TYPES.get(t, pb)
                    val = ins.value
                    if isinstance(val, float):
                        if val != int(val):
                            r["k"] = "oom"
                            r["why"] = "float constant of integer type"
                        val = int(val)
                    r["v"] = limbs(val, n)
                    signed = t.startswith("i")
                    lo, hi = (-(1 << (8 * n - 1)), (1 << (8 * n - 1)) - 1) if signed else (0, (1 << (8 * n)) - 1)
                    r["inrange"] = bool(lo <= val <= hi)
                else:
                    fr = _dyadic(ins.value)
                    if fr is None:
                        r["k"] = "oom"
                        r["why"] = "float constant outside the exact fragment"
                    else:
                        r["fv"] = fr
            elif isinstance(ins, ir.Binop):
                r.update(k="binop", op=ins.operation, a=op(ins.a), b=op(ins.b), aty=sty(ins.a), bty=sty(ins.b))
            elif isinstance(ins, ir.Unop):
                r.update(k="unop", op=ins.operation, a=op(ins.a), aty=sty(ins.a))
            elif isinstance(ins, ir.Cast):
                r.update(k="cast", a=op(ins.src), aty=sty(ins.src))
            elif isinstance(ins, ir.AddressOf):
                r.update(k="addrof", a=op(ins.src))
            elif isinstance(ins, ir.Alloc):
                r.update(k="alloc", amount=ins.amount, align=max(1, ins.alignment))
            elif isinstance(ins, ir.LiteralData):
                r.update(k="literal", data=list(ins.data))
            elif isinstance(ins, ir.Load):
                r.update(k="load", a=op(ins.address), vol=bool(ins.volatile), aty=sty(ins.address))
            elif isinstance(ins, ir.Store):
                r.update(k="store", a=op(ins.address), b=op(ins.value), vol=bool(ins.volatile),
                         aty=sty(ins.address), bty=sty(ins.value))
            elif isinstance(ins, ir.CopyBlob):
                r.update(k="copyblob", a=op(ins.dst), b=op(ins.src), amount=ins.amount)
            elif isinstance(ins, ir.FunctionCall):
                r.update(k="call", c=op(ins.callee), args=[op(a) for a in ins.arguments],
                         atys=[sty(a) for a in ins.arguments])
            elif isinstance(ins, ir.ProcedureCall):
                r.update(k="pcall", c=op(ins.callee), args=[op(a) for a in ins.arguments],
                         atys=[sty(a) for a in ins.arguments])
            elif isinstance(ins, ir.Phi):
                inc = []
                for pb_, val in ins.inputs.items():
                    inc.append({"p": blk(pb_), "v": op(val), "vty": sty(val)})
                inc.sort(key=lambda x: x["p"])
                r.update(k="phi", inc=inc)
            elif isinstance(ins, ir.Undefined):
                r.update(k="undef")
            elif isinstance(ins, ir.Jump):
                r.update(k="jmp", t=blk(ins.target))
            elif isinstance(ins, ir.CJump):
                r.update(k="cjmp", a=op(ins.a), b=op(ins.b), cond=ins.cond, yes=blk(ins.lab_yes), no=blk(ins.lab_no),
                         aty=sty(ins.a), bty=sty(ins.b))
            elif isinstance(ins, ir.Return):
                r.update(k="ret", a=op(ins.result), aty=sty(ins.result))
            elif isinstance(ins, ir.Exit):
                r.update(k="exit")
            elif isinstance(ins, ir.InlineAsm):
                r.update(k="oom", why="inline asm")
            else:
                r.update(k="oom", why="unknown instruction " + type(ins).__name__)
            if wf:
                r["uses"] = sorted(op(u) for u in ins.uses)
                if isinstance(ins, ir.Value):
                    r["used_by"] = sorted(_pos(u, bidx) for u in ins.used_by)
                r["inblock"] = blk(ins.block) if getattr(ins, "block", None) is not None else 0
                r["term"] = bool(isinstance(ins, ir.FinalInstruction))
            ins_out.append(r)
        ob = {"name": b.name, "ins": ins_out}
        if wf:
            refs = []
            for j in b.references:
                jb = getattr(j, "block", None)
                refs.append(blk(jb) if jb is not None else 0)
            ob["refs"] = sorted(refs)
            ob["fn_ok"] = bool(b.function is f)
        out_blocks.append(ob)
    res = {
        "name": f.name,
        "ret": tyname(f.return_ty) if isinstance(f, ir.Function) else "",
        "params": [{"id": ids[id(p)], "ty": tyname(p.ty)} for p in f.arguments],
        "nvals": len(ids),
        "entry": blk(f.entry),
        "blocks": out_blocks,
    }
    if wf:
        res["names"] = names
        res["ndef"] = ndef
        res["dangling"] = dangling
    return res


def _pos(ins, bidx):
    b = getattr(ins, "block", None)
    if b is None or id(b) not in bidx:
        return [0, 0]
    try:
        return [bidx[id(b)], b.instructions.index(ins) + 1]
    except ValueError:
        return [bidx[id(b)], 0]


def _dyadic(v):
    """Exact dyadic fragment of DESIGN §3.3: k / 2^e, |k| < 2^20, e <= 8."""
    try:
        fr = Fraction(v)
    except (ValueError, OverflowError, TypeError):
        return None
    den = fr.denominator
    if den & (den - 1) or den > 256 or abs(fr.numerator) >= (1 << 20):
        return None
    return [fr.numerator, den]
