"""X05 helper: control-flow graphs for ppci/graph/relooper.py, drivers and projections.

An *abstract graph* is a list `succ` of successor lists, blocks numbered from 1, entry = 1:
[] = return block, [t] = jump, [yes, no] = conditional jump, longer = n-way (only through a
hand-built ControlFlowGraph; ppci.ir has no usable jump table).

Nothing here judges anything: the generators make graphs, the drivers call ppci and record
what came back, the projections turn ir functions / shape trees into JSON for Reloop.tla.
"""
import itertools

MAX_NODES = 400  # projection cap of a shape tree (a tree this large / cyclic is reported as such)


# ---------------------------------------------------------------------------
# generators of abstract graphs
# ---------------------------------------------------------------------------
def reachable(succ):
    seen = {1}
    work = [1]
    while work:
        b = work.pop()
        for t in succ[b - 1]:
            if t not in seen:
                seen.add(t)
                work.append(t)
    return seen


def all_graphs(n, canonical=True):
    """Every graph on n blocks with 0, 1 or 2 (different, ordered) successors per block in which
    every block is reachable from block 1; with canonical=True one per renumbering of the
    non-entry blocks."""
    opts = [[]] + [[a] for a in range(1, n + 1)] + [[a, b] for a in range(1, n + 1) for b in range(1, n + 1) if a != b]
    perms = list(itertools.permutations(range(2, n + 1)))
    for combo in itertools.product(opts, repeat=n):
        succ = [list(s) for s in combo]
        if len(reachable(succ)) != n:
            continue
        if canonical and n > 2:
            me = tuple(tuple(s) for s in succ)
            least = True
            for p in perms:
                ren = {1: 1}
                ren.update({old: new for old, new in zip(range(2, n + 1), p)})
                other = [None] * n
                for old in range(1, n + 1):
                    other[ren[old] - 1] = tuple(ren[t] for t in succ[old - 1])
                if tuple(other) < me:
                    least = False
                    break
            if not least:
                continue
        yield succ


def can_all_return(succ):
    ok = {b + 1 for b, s in enumerate(succ) if not s}
    changed = True
    while changed:
        changed = False
        for b, s in enumerate(succ):
            if b + 1 not in ok and any(t in ok for t in s):
                ok.add(b + 1)
                changed = True
    return len(ok) == len(succ)


def random_graph(rng, n, p_ret=0.15, p_cj=0.5, all_return=False):
    """Random graph on n blocks, all reachable from block 1 (biased towards b -> b+1 edges so
    that long graphs come out; any edge, including self loops and edges to the entry, can occur).
    all_return: only graphs in which a return block can be reached from every block."""
    while True:
        succ = []
        for b in range(1, n + 1):
            r = rng.random()
            if r < p_ret:
                s = []
            else:
                first = b + 1 if (b < n and rng.random() < 0.6) else rng.randrange(1, n + 1)
                s = [first]
                if r < p_ret + p_cj:
                    second = rng.randrange(1, n + 1)
                    if second != first:
                        s.append(second)
                        if rng.random() < 0.5:
                            s.reverse()
            succ.append(s)
        if len(reachable(succ)) == n and (not all_return or can_all_return(succ)):
            return succ


class _Lower:
    """Random structured program (sequence / if / if-else / while / do-while / endless loop with
    break, continue, return) lowered to a graph the usual way.  With merge=False every construct
    gets its own join / latch blocks (what a front-end emits), with merge=True empty blocks are
    shared (what the optimiser leaves)."""

    def __init__(self, rng, budget, merge):
        self.r = rng
        self.budget = budget
        self.merge = merge
        self.succ = {}
        self.n = 0

    def new(self):
        self.n += 1
        self.succ[self.n] = None
        return self.n

    def stmts(self, cur, loops, depth):
        """Emit statements starting in open block `cur`; returns the open block at the end or None
        when control never falls out."""
        k = self.r.randrange(1, 4)
        for _ in range(k):
            if cur is None or self.budget <= 0:
                break
            cur = self.stmt(cur, loops, depth)
        return cur

    def stmt(self, cur, loops, depth):
        r = self.r
        self.budget -= 1
        kinds = ["plain", "if", "ifelse", "while", "dowhile"]
        if depth >= 3:
            kinds = ["plain", "if"]
        if loops:
            kinds += ["break", "continue", "break", "continue"]
        kinds += ["return"] if r.random() < 0.5 else []
        if r.random() < 0.15:
            kinds.append("forever")
        kind = r.choice(kinds)
        if kind == "plain":
            nxt = self.new()
            self.succ[cur] = [nxt]
            return nxt
        if kind == "return":
            self.succ[cur] = []
            return None
        if kind == "break":
            self.succ[cur] = [loops[-1][1]]
            return None
        if kind == "continue":
            self.succ[cur] = [loops[-1][0]]
            return None
        if kind in ("if", "ifelse"):
            yes = self.new()
            join = self.new()
            no = self.new() if kind == "ifelse" else join
            pair = [yes, no]
            if r.random() < 0.3:
                pair.reverse()
            self.succ[cur] = pair
            e1 = self.stmts(yes, loops, depth + 1)
            if e1 is not None:
                self.succ[e1] = [join]
            if kind == "ifelse":
                e2 = self.stmts(no, loops, depth + 1)
                if e2 is not None:
                    self.succ[e2] = [join]
            return join
        if kind == "while":
            head = self.new()
            body = self.new()
            after = self.new()
            self.succ[cur] = [head]
            pair = [body, after]
            if r.random() < 0.3:
                pair.reverse()
            self.succ[head] = pair
            e = self.stmts(body, loops + [(head, after)], depth + 1)
            if e is not None:
                self.succ[e] = [head]
            return after
        if kind == "dowhile":
            body = self.new()
            latch = self.new()
            after = self.new()
            self.succ[cur] = [body]
            e = self.stmts(body, loops + [(latch, after)], depth + 1)
            if e is not None:
                self.succ[e] = [latch]
            pair = [body, after]
            if r.random() < 0.3:
                pair.reverse()
            self.succ[latch] = pair
            return after
        if kind == "forever":
            head = self.new()
            after = self.new()
            self.succ[cur] = [head]
            e = self.stmts(head, loops + [(head, after)], depth + 1)
            if e is not None:
                self.succ[e] = [head]
            return after
        raise AssertionError(kind)

    def graph(self):
        entry = self.new()
        end = self.stmts(entry, [], 0)
        if end is not None:
            self.succ[end] = []
        for b in self.succ:
            if self.succ[b] is None:
                self.succ[b] = []  # unreachable join block
        succ = self.succ
        if self.merge:
            # thread jumps through blocks that only jump (not the entry, no self loops)
            def final(t, seen=()):
                while t != 1 and len(succ[t]) == 1 and succ[t][0] != t and t not in seen:
                    seen = seen + (t,)
                    t = succ[t][0]
                return t

            succ = {b: [final(t) for t in s] for b, s in succ.items()}
            succ = {b: ([s[0]] if len(s) == 2 and s[0] == s[1] else s) for b, s in succ.items()}
        return renumber(succ)


def renumber(succ_map, entry=1):
    """Keep the blocks reachable from the entry, number them 1.. in discovery order."""
    order = []
    seen = set()
    work = [entry]
    while work:
        b = work.pop(0)
        if b in seen:
            continue
        seen.add(b)
        order.append(b)
        work.extend(succ_map[b])
    idx = {b: k + 1 for k, b in enumerate(order)}
    return [[idx[t] for t in succ_map[b]] for b in order]


def structured_graph(rng, budget=6, merge=False):
    for _ in range(50):
        g = _Lower(rng, budget, merge).graph()
        if 2 <= len(g) <= 14:
            return g
    return [[2], []]


# graphs of the named classes (entry = 1)
NAMED = {
    "single": [[]],
    "chain3": [[2], [3], []],
    "diamond": [[2, 3], [4], [4], []],
    "if-then": [[2, 3], [3], []],
    "if-then-swapped": [[3, 2], [3], []],
    "two-returns": [[2, 3], [], []],
    "while": [[2], [3, 4], [2], []],
    "while-swapped": [[2], [4, 3], [2], []],
    "do-while": [[2], [2, 3], []],
    "do-while-2": [[2], [3], [2, 4], []],
    "self-loop-exit": [[2], [2, 3], []],
    "endless": [[2], [2]],
    "endless-2": [[2], [3], [2]],
    "entry-is-header": [[1, 2], []],
    "entry-self-loop": [[1]],
    "back-to-entry": [[2], [1, 3], []],
    "nested-while": [[2], [3, 7], [4], [5, 6], [4], [2], []],
    "nested-do": [[2], [3], [3, 4], [2, 5], []],
    "loop-two-exits-same": [[2], [3, 5], [4, 5], [2], []],
    "loop-two-exits-differ": [[2], [3, 5], [4, 6], [2], [7], [7], []],
    "loop-break-continue": [[2], [3, 6], [4, 5], [2], [6, 2], []],
    "loop-with-return": [[2], [3, 5], [4, 2], [], []],
    "loop-exit-dominated": [[2], [3, 4], [2], [5], []],
    "break-out-of-two": [[2], [3, 7], [4, 6], [5, 7], [3], [2], []],
    "continue-outer": [[2], [3, 7], [4, 6], [5, 2], [3], [2], []],
    "irreducible": [[2, 3], [3], [2, 4], []],
    "irreducible-2": [[2, 3], [3, 4], [2, 4], []],
    "irreducible-3": [[2], [3, 4], [4], [3, 5], []],
    "cross-edge": [[2, 3], [4], [4, 5], [5], []],
    "shared-tail": [[2, 3], [4, 5], [5], [6], [6], []],
    "if-chain(switch)": [[2, 3], [7], [4, 5], [7], [6, 7], [7], []],
    "switch-fallthrough": [[2, 3], [4], [4, 5], [5], []],
    "sequential-loops": [[2], [3, 4], [2], [5], [6, 7], [5], []],
    "loop-in-if": [[2, 5], [3], [4, 6], [3], [6], []],
    "if-in-loop": [[2], [3, 8], [4, 5], [6], [6], [7], [2], []],
    "if-in-loop-merged": [[2], [3, 6], [4, 5], [2], [2], []],
    "diamond-in-diamond": [[2, 7], [3, 4], [5], [5], [6], [9], [8], [6], []],
    "goto-into-if": [[2, 3], [4], [5], [5], []],
    "same-target-cjump": [[2, 2], []],
}

# graphs with n-way blocks: only through a hand-built ControlFlowGraph
NAMED_CFG = {
    "switch3": [[2, 3, 4], [5], [5], [5], []],
    "switch3-ret": [[2, 3, 4], [], [], []],
    "switch-in-loop": [[2], [3, 4, 5], [2], [2], []],
}


# ---------------------------------------------------------------------------
# building the input of the relooper
# ---------------------------------------------------------------------------
def build_ir(succ, name="f"):
    """ir.Procedure with one block per entry of succ (only lists of length <= 2)."""
    from ppci import ir

    m = ir.Module("x05")
    f = ir.Procedure(name, ir.Binding.GLOBAL)
    m.add_function(f)
    blocks = [ir.Block("%s_b%d" % (name, k + 1)) for k in range(len(succ))]
    for b in blocks:
        f.add_block(b)
    f.entry = blocks[0]
    for k, s in enumerate(succ):
        b = blocks[k]
        if len(s) == 0:
            b.add_instruction(ir.Exit())
        elif len(s) == 1:
            b.add_instruction(ir.Jump(blocks[s[0] - 1]))
        elif len(s) == 2:
            c = ir.Const(k, "c%d" % (k + 1), ir.i32)
            b.add_instruction(c)
            b.add_instruction(ir.CJump(c, "==", c, blocks[s[0] - 1], blocks[s[1] - 1]))
        else:
            raise ValueError("no n-way jump in ppci.ir")
    return m, f


def project_function(f):
    """Abstract graph of an ir function, read off its terminators (not through ppci.graph):
    returns (succ, index) where index maps an ir block to its number; entry = 1; only the
    blocks reachable from the entry are numbered."""
    from ppci import ir

    def targets(b):
        last = b.instructions[-1] if b.instructions else None
        if isinstance(last, ir.CJump):
            return [last.lab_yes, last.lab_no]
        if isinstance(last, ir.Jump):
            return [last.target]
        return []

    seen = {id(f.entry): f.entry}
    work = [f.entry]
    while work:
        b = work.pop(0)
        for t in targets(b):
            if id(t) not in seen:
                seen[id(t)] = t
                work.append(t)
    # numbering: the entry first, then the reachable blocks in the order the function lists them
    order = [f.entry] + [b for b in f.blocks if id(b) in seen and b is not f.entry]
    order += [b for b in seen.values() if not any(b is o for o in order)]
    index = {id(b): k + 1 for k, b in enumerate(order)}
    return [[index[id(t)] for t in targets(b)] for b in order], index


def build_cfg(succ):
    """Hand-built ppci ControlFlowGraph; returns (cfg, index: id(node) -> number).  A block
    without successors gets the edge to the exit node, as ir_function_to_graph does."""
    from ppci.graph import cfg as cfgmod

    g = cfgmod.ControlFlowGraph()
    g.exit_node = cfgmod.ControlFlowNode(g, name=None)
    nodes = [cfgmod.ControlFlowNode(g, name="n%d" % (k + 1)) for k in range(len(succ))]
    g.entry_node = nodes[0]
    for k, s in enumerate(succ):
        if not s:
            nodes[k].add_edge(g.exit_node)
        for t in s:
            nodes[k].add_edge(nodes[t - 1])
        if len(s) == 2:
            nodes[k].yes = nodes[s[0] - 1]
            nodes[k].no = nodes[s[1] - 1]
    return g, {id(nd): k + 1 for k, nd in enumerate(nodes)}


# ---------------------------------------------------------------------------
# projection of a shape tree
# ---------------------------------------------------------------------------
class TooBig(Exception):
    pass


def project_shape(shape, block_of):
    """Flatten a shape tree in pre-order into [{"k", "b", "kids"}] (1-based kid indices, 0 = None).
    block_of(content) gives the block number of a Basic/If shape's content (0 if unknown)."""
    from ppci.graph import relooper as rl

    nodes = []

    def walk(s, depth):
        if s is None:
            return 0
        if len(nodes) >= MAX_NODES or depth > 100:
            raise TooBig()
        me = {"k": "?", "b": 0, "kids": []}
        nodes.append(me)
        idx = len(nodes)
        # exact classes, most specific first; anything else keeps its class name as kind
        if isinstance(s, rl.BasicShape):
            me["k"] = "basic"
            me["b"] = block_of(s.content)
        elif isinstance(s, rl.IfShape):
            me["k"] = "if"
            me["b"] = block_of(s.content)
            me["kids"] = [walk(s.yes_shape, depth + 1), walk(s.no_shape, depth + 1)]
        elif isinstance(s, rl.SequenceShape):
            me["k"] = "seq"
            me["kids"] = [walk(x, depth + 1) for x in list(s.shapes)]
        elif isinstance(s, rl.LoopShape):
            me["k"] = "loop"
            me["kids"] = [walk(s.body, depth + 1)]
        elif isinstance(s, rl.BreakShape):
            me["k"] = "break"
            me["b"] = s.level if isinstance(s.level, int) and not isinstance(s.level, bool) else -1
        elif isinstance(s, rl.ContinueShape):
            me["k"] = "cont"
            me["b"] = s.level if isinstance(s.level, int) and not isinstance(s.level, bool) else -1
        else:
            me["k"] = type(s).__name__
        return idx

    root = walk(shape, 0)
    return {"root": root, "nodes": nodes}


EMPTY_TREE = {"root": 0, "nodes": []}


def outcome_of(call):
    """Run call() -> (shape, block_of); returns (out, tree)."""
    try:
        shape, block_of = call()
    except RecursionError:
        return {"ok": False, "exc": "RecursionError"}, EMPTY_TREE
    except Exception as e:  # judged by TLC: only the documented refusals are allowed
        return {"ok": False, "exc": type(e).__name__}, EMPTY_TREE
    try:
        return {"ok": True, "exc": ""}, project_shape(shape, block_of)
    except TooBig:
        return {"ok": False, "exc": "ShapeNotATree"}, EMPTY_TREE
    except Exception as e:
        return {"ok": False, "exc": "Projection" + type(e).__name__}, EMPTY_TREE


def run_on_function(f):
    """find_structure(ir function) -> case parts (g, out, t)."""
    from ppci.graph import relooper as rl

    succ, index = project_function(f)

    def call():
        shape, rmap = rl.find_structure(f)

        def block_of(content):
            try:
                return index.get(id(rmap[content]), 0)
            except Exception:
                return 0

        return shape, block_of

    out, tree = outcome_of(call)
    return {"n": len(succ), "entry": 1, "succ": succ}, out, tree


def run_on_cfg(succ):
    """StructureDetector().detect(hand-built cfg) -> case parts."""
    from ppci.graph import relooper as rl

    def call():
        g, index = build_cfg(succ)
        shape = rl.StructureDetector().detect(g)
        return shape, lambda content: index.get(id(content), 0)

    out, tree = outcome_of(call)
    return {"n": len(succ), "entry": 1, "succ": succ}, out, tree


def gkey(succ):
    return ";".join(",".join(map(str, s)) if s else "r" for s in succ)
