"""TLC runner and output parser (one runner for idioms M, T, E, G)."""
import json
import os
import re
import shutil
import subprocess
import tempfile
import time

from . import tlaval

VERIF = os.path.dirname(os.path.dirname(os.path.abspath(__file__)))
TLA_DIR = os.path.join(VERIF, "tla")
JAR = "/opt/veriftools/tla/tla2tools.jar:/opt/veriftools/tla/CommunityModules-deps.jar"


class MachineryError(Exception):
    """TLC crashed / unparsable output: exit status 2, never a violation."""


class TLCError:
    def __init__(self, kind, name, states, text):
        self.kind = kind  # invariant | deadlock | action_property | assert | temporal | eval
        self.name = name
        self.states = states  # list of (action_label, {var: value})
        self.text = text

    @property
    def last(self):
        return self.states[-1][1] if self.states else {}

    def __repr__(self):
        return "TLCError(%s,%s,%d states)" % (self.kind, self.name, len(self.states))


class TLCResult:
    def __init__(self):
        self.errors = []
        self.generated = 0
        self.distinct = 0
        self.depth = 0
        self.coverage = {}
        self.printed = []
        self.raw = ""
        self.wall = 0.0
        self.completed = False
        self.postcondition_failed = False
        self.left_on_queue = 0

    @property
    def ok(self):
        return self.completed and not self.errors


_STATE_RE = re.compile(r"^State (\d+): (.*)$")
_COV_RE = re.compile(r"^<(\w+) line (\d+), col (\d+) to line (\d+), col (\d+) of module (\w+)(?: \([^)]*\))?>: (\d+):(\d+)")


def parse_output(text):
    res = TLCResult()
    res.raw = text
    lines = text.splitlines()
    i = 0
    n = len(lines)
    cur_err = None
    while i < n:
        ln = lines[i]
        m = re.match(r"^Error: Invariant (\S+) is violated", ln)
        if m:
            cur_err = TLCError("invariant", m.group(1), [], ln)
            res.errors.append(cur_err)
            i += 1
            continue
        if ln.startswith("Error: Deadlock reached"):
            cur_err = TLCError("deadlock", "Deadlock", [], ln)
            res.errors.append(cur_err)
            i += 1
            continue
        m = re.match(r"^Error: Action property (\S+) is violated", ln)
        if m:
            cur_err = TLCError("action_property", m.group(1), [], ln)
            res.errors.append(cur_err)
            i += 1
            continue
        if ln.startswith("Error: Temporal properties were violated"):
            cur_err = TLCError("temporal", "Temporal", [], ln)
            res.errors.append(cur_err)
            i += 1
            continue
        if ln.startswith("Error: The behavior up to this point is") or ln.startswith(
            "Error: The following behavior constitutes a counter-example"
        ):
            i += 1
            continue
        if ln.startswith("Error: ") and "Assumption" in ln and "is false" in ln:
            res.errors.append(TLCError("assume", ln, [], ln))
            cur_err = None
            i += 1
            continue
        if ln.startswith("Error: ") and (
            "evaluating" in ln.lower()
            or "The first argument of Assert" in ln
            or "TLC threw" in ln
            or "Attempted to" in ln
            or "The exception was" in ln
            or "was not in the domain" in ln
            or "Postcondition" in ln
        ):
            # evaluation error: gather following lines until blank
            j = i
            buf = []
            while j < n and lines[j].strip() != "" and j < i + 30:
                buf.append(lines[j])
                j += 1
            if "Postcondition" in ln:
                res.postcondition_failed = True
            cur_err = TLCError("eval", ln[7:80], [], "\n".join(buf))
            res.errors.append(cur_err)
            i = j
            continue
        if ln.startswith("Error: ") and not ln.startswith("Error: The behavior") and not ln.startswith("Error: The following"):
            j = i
            buf = []
            while j < n and lines[j].strip() != "" and j < i + 12:
                buf.append(lines[j])
                j += 1
            cur_err = TLCError("eval", ln[7:90], [], "\n".join(buf))
            res.errors.append(cur_err)
            i += 1
            continue
        m = _STATE_RE.match(ln)
        if m and cur_err is not None:
            label = m.group(2)
            j = i + 1
            buf = []
            while j < n and lines[j].strip() != "":
                buf.append(lines[j])
                j += 1
            cur_err.states.append((label, tlaval.parse_state("\n".join(buf))))
            i = j
            continue
        m = re.match(r"^(\d+) states generated, (\d+) distinct states found, (\d+) states left on queue", ln)
        if m:
            res.generated = int(m.group(1))
            res.distinct = int(m.group(2))
            res.left_on_queue = int(m.group(3))
        m = re.match(r"^The depth of the complete state graph search is (\d+)", ln)
        if m:
            res.depth = int(m.group(1))
        if ln.startswith("Model checking completed") or ln.startswith("Finished in"):
            res.completed = True
        m = _COV_RE.match(ln)
        if m:
            key = "%s.%s@%s" % (m.group(6), m.group(1), m.group(2))
            d, g = int(m.group(7)), int(m.group(8))
            od, og = res.coverage.get(key, (0, 0))
            res.coverage[key] = (max(od, d), max(og, g))
        i += 1
    return res


def action_coverage(res):
    """{ActionName: generated} summed over the module's top-level action lines."""
    out = {}
    for k, (d, g) in res.coverage.items():
        name = k.split("@")[0]
        out[name] = out.get(name, 0) + g
    return out


def _die_with_parent():
    """Child is killed when the harness dies (PR_SET_PDEATHSIG = 1, SIGKILL = 9)."""
    try:
        import ctypes

        ctypes.CDLL("libc.so.6").prctl(1, 9)
    except Exception:
        pass


def make_workdir(prefix="tlc_"):
    return tempfile.mkdtemp(prefix=prefix)


def run(
    module,
    cfg_text,
    workdir,
    env=None,
    workers=16,
    continue_=False,
    coverage=False,
    timeout=1800,
    extra=None,
    extra_modules=None,
    dfs=False,
    simulate=None,
    depth=None,
    seed=None,
    heap="8g",
):
    """Run TLC on tla/<module>.tla with the given cfg text inside workdir.

    extra_modules: {name: text} of generated modules written next to the spec.
    Returns a TLCResult.  Raises MachineryError on time-out / crash."""
    for f in os.listdir(TLA_DIR):
        if f.endswith(".tla"):
            dst = os.path.join(workdir, f)
            if not os.path.exists(dst):
                shutil.copy(os.path.join(TLA_DIR, f), dst)
    for name, text in (extra_modules or {}).items():
        with open(os.path.join(workdir, name + ".tla"), "w") as f:
            f.write(text)
    cfg = os.path.join(workdir, module + ".cfg")
    with open(cfg, "w") as f:
        f.write(cfg_text)
    meta = os.path.join(workdir, "meta_" + module + "_%d" % int(time.time() * 1000))
    cmd = ["java", "-XX:+UseParallelGC", "-Xmx" + heap, "-Xss32m", "-Djava.io.tmpdir=" + workdir]
    if dfs:
        cmd.append("-Dtlc2.tool.queue.IStateQueue=StateDeque")
    cmd += ["-cp", JAR, "tlc2.TLC", "-workers", str(workers), "-metadir", meta,
            "-noGenerateSpecTE", "-config", cfg]
    if continue_:
        cmd.append("-continue")
    if coverage:
        cmd += ["-coverage", "1"]
    if simulate:
        cmd += ["-simulate", simulate]
    if depth:
        cmd += ["-depth", str(depth)]
    if seed is not None:
        cmd += ["-seed", str(seed)]
    cmd += list(extra or [])
    cmd.append(os.path.join(workdir, module + ".tla"))
    e = dict(os.environ)
    e.update(env or {})
    t0 = time.time()
    proc = subprocess.Popen(cmd, cwd=workdir, env=e, stdout=subprocess.PIPE, stderr=subprocess.STDOUT, text=True,
                            preexec_fn=_die_with_parent)
    try:
        stdout, _ = proc.communicate(timeout=timeout)
    except subprocess.TimeoutExpired:
        proc.kill()
        proc.communicate()
        raise MachineryError("TLC timed out after %ss on %s" % (timeout, module))
    except BaseException:
        proc.kill()
        raise
    finally:
        shutil.rmtree(meta, ignore_errors=True)
    p = proc
    out = stdout
    res = parse_output(out)
    res.wall = time.time() - t0
    res.returncode = p.returncode
    if not res.completed and not res.errors:
        raise MachineryError("TLC did not complete on %s:\n%s" % (module, out[-3000:]))
    if res.left_on_queue and not res.errors and not simulate:
        raise MachineryError("TLC stopped with %d states left on its queue on %s:\n%s" % (
            res.left_on_queue, module, out[-3000:]))
    # parse / semantic errors of the spec itself are machinery failures
    if "Parsing or semantic analysis failed" in out or "*** Errors:" in out or "Error: Parsing" in out:
        raise MachineryError("spec does not parse (%s):\n%s" % (module, out[-3000:]))
    return res


def write_json(path, obj):
    with open(path, "w") as f:
        json.dump(obj, f, separators=(",", ":"))
