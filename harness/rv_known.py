#!/venv/bin/python
"""NOTE (lead): after the fix commits 8f3dc05 9b57cfe a41196c 644f801 844e8e7 the files known.d/C07|C08|C10.json
were pruned by hand (entries no longer hit were dropped) and are AUTHORITATIVE; do not re-run this generator
without moving the corresponding rows to FIXED first.
Writes known.d/C07.json, C08.json, C10.json from the compact tables below (one row per confirmed
defect of ppci.arch.riscv; each row expands to fnmatch patterns over violation keys, keyed by
instruction class / operand / value category so that any other violation is still reported).
Run harness/mkmanifest.py afterwards.  Rows whose defect has been repaired by an applied fix move to FIXED."""
import json
import os

V = os.path.dirname(os.path.dirname(os.path.abspath(__file__)))

# ---- C10: immediates outside the representable range are accepted (silently wrapped / masked)
# {isa: {operand slot: {class: categories}}}; categories (from TLC's table, RV32_Gen!Category):
# lo / hi = outside the range but inside [-2^bits, 2^bits), ll / hh = beyond that, mis = misaligned, nz = reserved zero
TOKEN = ("lo", "hi")               # limited only by Token.__setitem__
MASKED = ("lo", "ll", "hi", "hh")  # encode() masks the value: everything is accepted
IMM_OUT = {
    "riscv": {
        "offset": dict([(c, MASKED) for c in ["addi_ins", "slti_ins", "sltiu_ins", "xori_ins", "ori_ins", "andi_ins",
                                              "Sb", "Sh", "Sw"]] +
                       [(c, TOKEN) for c in ["Blr", "Lb", "Lh", "Lw", "Lbu", "Lhu"]]),
        "imm": {"SlliShiftImm": ("lo",), "SrliShiftImm": ("lo",), "SraiShiftImm": ("lo",), "Lui": ("lo", "ll", "hh"),
                "Auipc": ("lo",), "Csrwi": ("lo",), "Csrsi": ("lo",), "Csrci": ("lo",)},
    },
    "rvc": {
        "imm": {"CLi": MASKED, "CLui": MASKED + ("nz",), "CAddi16sp": MASKED + ("mis", "nz"),
                "CAddi4spn": ("lo", "ll", "hh", "mis", "nz"), "CSlli": ("lo", "ll", "hh"),
                "c_srli_ins": ("lo",), "c_srai_ins": ("lo",)},
        "offset": {c: ("lo", "ll", "hh", "mis") for c in ["CLw", "CSw", "CLwsp", "CSwsp"]},
    },
}
# ---- C10: displacements in [2^(n-1), 2^n) are accepted by the relocations (bitfun.wrap_negative)
TARGET_OUT = {
    "riscv": ["B", "Bl", "beq_ins", "bne_ins", "blt_ins", "bgt_ins", "bge_ins", "bge_ins#2", "bltu_ins", "bgtu_ins",
              "bgeu_ins", "bleu_ins"],
    "rvc": ["CB", "CBl", "CJ", "CJal", "CBeqz", "CBnez"],
}
ODD_SYMBOL = ["Adrl", "Adrlrel", "Adru", "Adrurel", "Loadlrel"]
# ---- 3-bit register fields (x8..x15) silently wrap other registers: class -> (printed mnemonic, operand shapes)
# shapes are the printed operand lists with the wrapped slot written x[0-7]
PRIME = {
    "csub_ins": ("c.sub", ["x[0-7], x*", "x*, x[0-7]"]),
    "cxor_ins": ("c.xor", ["x[0-7], x*", "x*, x[0-7]"]),
    "cor_ins": ("c.or", ["x[0-7], x*", "x*, x[0-7]"]),
    "cand_ins": ("c.and", ["x[0-7], x*", "x*, x[0-7]"]),
    "c_srli_ins": ("c.srli", ["x[0-7], x*, *"]),
    "c_srai_ins": ("c.srai", ["x[0-7], x*, *"]),
    "c_andi_ins": ("c.andi", ["x[0-7], x*, *"]),
    "CLw": ("c.lw", ["x[0-7], *(x*)", "x*, *(x[0-7])"]),
    "CSw": ("c.sw", ["x[0-7], *(x*)", "x*, *(x[0-7])"]),
    "CBeqz": ("c.beqz", ["x[0-7], L_t*"]),
    "CBnez": ("c.bneqz", ["x[0-7], L_t*"]),
    "CAddi4spn": ("c.addi4spn", ["x[0-7] *"]),
}
# ---- operand combinations that are a different / reserved encoding
RESERVED = {
    "CAddi": ("c.addi x0, x0, *", "c.addi with rd = x0 is the encoding of c.nop"),
    "CJr": ("c.jr x0", "c.jr x0 is a reserved encoding"),
    "CJalr": ("c.jalr x0", "c.jalr x0 is the encoding of c.ebreak"),
    "CLui": ("c.lui x2, *", "c.lui with rd = x2 is the encoding of c.addi16sp"),
    "CLwsp": ("c.lwsp x0,*", "c.lwsp with rd = x0 is a reserved encoding"),
    "CMovr": ("c.mv x*, x0", "c.mv rd, x0 is the encoding of c.jr rd"),
}
# ---- three-operand spelling "c.op rd, rs, imm": rs is not encoded, rs != rd is accepted
DIALECT = {"CSlli": "c.slli", "c_srli_ins": "c.srli", "c_srai_ins": "c.srai", "c_andi_ins": "c.andi"}


def entries():
    c08, c10, c07 = [], [], []

    def add(lst, prop, key, what):
        lst.append({"property": prop, "key": key, "what": what})

    # ---------------- shared by C08 and C10 (accepted operands that are encoded as something else)
    for prop, lst in (("C08", c08), ("C10", c10)):
        add(lst, prop, "%s:riscv:bge_ins#2:*" % prop,
            "riscv Ble (make_branch('bge', 0b101, True)) prints 'bge rn, rm' but encodes bge rm, rn: the mnemonic should be ble "
            "(fix: proposed_fixes/C08-riscv-ble-mnemonic.patch)")
        for cls, mn in (("CAddi", "c.addi"), ("c_andi_ins", "c.andi")):
            add(lst, prop, "%s:rvc:%s:*:%s x*, x*, -*" % (prop, cls, mn),
                "%s: imm[5] (instruction bit 12) is never set, so negative immediates are encoded as imm + 32 "
                "(c.addi x10, x10, -1 -> c.addi x10, 31) (fix: proposed_fixes/C10-rvc-sign-bit-and-shamt.patch)" % mn)
        for pat in ("1[6-9]", "2[0-9]", "3[01]"):
            add(lst, prop, "%s:rvc:CSlli:*:c.slli x*, x*, %s" % (prop, pat),
                "c.slli masks the shift amount with 0xF: shamt 16..31 is encoded as shamt - 16 "
                "(fix: proposed_fixes/C10-rvc-sign-bit-and-shamt.patch)")
        for cls, mn in sorted(DIALECT.items()):
            what = ("%s rd, rs, imm: rs is not encoded and rs != rd is accepted (the instruction computes rd = rd op imm)" % mn)
            add(lst, prop, "%s:rvc:%s:*:rs:sweep:*" % (prop, cls), what)
            add(lst, prop, "%s:rvc:%s:*:rd:sweep:*" % (prop, cls), what + "; rd outside x8..x15 wraps")
            add(lst, prop, "%s:rvc:%s:*:%s x10, x11, *" % (prop, cls, mn), what)
            add(lst, prop, "%s:rvc:%s:*:random:ne:*" % (prop, cls), what)
        for cls, (mn, shapes) in sorted(PRIME.items()):
            for sh in shapes:
                add(lst, prop, "%s:rvc:%s:*:%s %s" % (prop, cls, mn, sh),
                    "%s: a register outside x8..x15 in a 3-bit register field is silently wrapped (num - 8 mod 8) instead of "
                    "rejected; the repository tests (test_riscvrvcasm.py) assemble such operands" % mn)
        for cls, (pat, what) in sorted(RESERVED.items()):
            add(lst, prop, "%s:rvc:%s:*:%s" % (prop, cls, pat), what + ", accepted without error")
    # ---------------- C08 only: macro instructions
    add(c08, "C08", "C08:rvc:Addiv:*:addi x*, x*, -*", "Addiv selects c.addi for -32..-1, which CAddi encodes with the wrong sign "
        "(fix: proposed_fixes/C10-rvc-sign-bit-and-shamt.patch)")
    for cls in ("Beqv", "Bnev"):
        add(c08, "C08", "C08:rvc:%s:*" % cls, "%s renders 'b(n)eq rn, rm, target' as c.b(n)eqz rn and ignores rm (unused macro)" % cls)
    for cls, mn in (("Lwv", "lw"), ("Swv", "sw")):
        add(c08, "C08", "C08:rvc:%s:*:m4=[123]:*" % cls,
            "%s selects c.%s for any offset in 0..127; offsets that are not multiples of 4 lose their low bits" % (cls, mn))
    # ---------------- C10 only
    catname = {"lo": "below the representable range (>= -2^bits)", "hi": "above the representable range (< 2^bits)",
               "ll": "below -2^bits", "hh": ">= 2^bits",
               "mis": "not a multiple of the field's scale", "nz": "0 (a reserved encoding)"}
    for which, slots in sorted(IMM_OUT.items()):
        for slot, classes in sorted(slots.items()):
            for cls, cats in sorted(classes.items()):
                for cat in cats:
                    add(c10, "C10", "C10:%s:%s:*:%s:%s:*" % (which, cls, slot, cat),
                        "%s: values of '%s' %s are accepted and wrapped / masked instead of rejected "
                        "(Token.__setitem__ accepts [-2^n, 2^n), several encode() methods mask explicitly)" % (
                            cls, slot, catname[cat]))
    for which, classes in sorted(TARGET_OUT.items()):
        for cls in classes:
            add(c10, "C10", "C10:%s:%s:*:target:hi:*" % (which, cls),
                "%s: displacements in [2^(n-1), 2^n) are accepted by the relocation (bitfun.wrap_negative) and alias "
                "backward branches (fix: proposed_fixes/C10-riscv-relocation-signed-range.patch)" % cls)
    for cls in ODD_SYMBOL:
        add(c10, "C10", "C10:riscv:%s:*:label:addr:odd:*" % cls,
            "%s: a symbol at an odd address (byte data) is refused with an AssertionError although %%hi/%%lo can express it" % cls)
    # ---------------- C10, relocations of other targets (judged with Reloc.tla; thorough tier)
    d10 = "[1-9]" + "[0-9]" * 9
    for pat in ("d=" + d10, "d=-" + d10):
        add(c10, "C10", "C10:x86_64:reloc:rel32:*:" + pat,
            "x86_64 rel32: displacements outside [-2^31, 2^31) (up to +-2^32) are accepted and wrapped (struct pack of the low 32 bits)")
    for pat in ("d=[12][0-9][0-9]", "d=-[12][0-9][0-9]"):
        add(c10, "C10", "C10:x86_64:reloc:jmp8:*:" + pat,
            "x86_64 jmp8 (jmpshort): displacements outside [-128, 127] (up to about +-256) are accepted and wrapped")
    add(c10, "C10", "C10:arm:reloc:imm24:*:fwd:*:d=[3-6]" + "[0-9]" * 7,
        "arm imm24 (b / bl / bcc): forward displacements in [2^25, 2^26) are accepted (bitfun.wrap_negative) and alias backward branches")
    for rt in ("ldr_imm12", "adr_imm12"):
        add(c10, "C10", "C10:arm:reloc:%s:*:m4=[123]:*" % rt,
            "arm %s: a displacement that is not a multiple of 4 is refused with an AssertionError although the 12-bit byte offset can express it" % rt)
    for d in ("d=4104", "d=-4088"):
        add(c10, "C10", "C10:arm:reloc:adr_imm12:*:" + d,
            "arm adr_imm12: +-4096 (a rotated 8-bit immediate) is refused with an AssertionError")
    for rt, pats in (("bl_imm11", ("d=167772[01][0-9]", "d=-167772[01][0-9]")),
                     ("b_imm11_imm6", ("d=10485[67][0-9]", "d=-10485[67][0-9]"))):
        for pat in pats:
            add(c10, "C10", "C10:thumb:reloc:%s:*:%s" % (rt, pat),
                "thumb %s: near the ends of the range the S/J1/J2 bits are set without the I1 = NOT(J1 EOR S) inversion, the field "
                "designates a different address (or the largest offset is refused)" % rt)
    add(c10, "C10", "C10:thumb:reloc:rel8:*:d=258", "thumb rel8: the largest forward displacement (254 from PC) is refused (AssertionError)")
    add(c10, "C10", "C10:thumb:reloc:wrap_new11:*:d=2050", "thumb wrap_new11: the largest forward displacement (2046 from PC) is refused (AssertionError)")
    # ---------------- C07
    add(c07, "C07", "C07:rvc:CAddi:*", "CAddi declares rd write-only although c.addi reads rd "
        "(fix: proposed_fixes/C07-rvc-read-write-annotations.patch)")
    for cls, mn in (("csub_ins", "c.sub"), ("cxor_ins", "c.xor"), ("cor_ins", "c.or"), ("cand_ins", "c.and")):
        add(c07, "C07", "C07:rvc:%s:*" % cls, "%s rd, rn: rd is declared write-only although the instruction reads it "
            "(fix: proposed_fixes/C07-rvc-read-write-annotations.patch)" % mn)
    add(c07, "C07", "C07:rvc:CJal:*", "c.jal writes x1 (ra) but CJal declares no written register "
        "(fix: proposed_fixes/C07-rvc-read-write-annotations.patch)")
    add(c07, "C07", "C07:rvc:CJalr:*", "c.jalr writes x1 (ra) but CJalr declares no written register "
        "(fix: proposed_fixes/C07-rvc-read-write-annotations.patch)")
    add(c07, "C07", "C07:rvc:CAddi16sp:*", "c.addi16sp changes x2 (sp) but CAddi16sp declares no written register "
        "(fix: proposed_fixes/C07-rvc-read-write-annotations.patch)")
    return {"C07": c07, "C08": c08, "C10": c10}


FIXED = {"C07": [], "C08": [], "C10": []}

if __name__ == "__main__":
    for prop, lst in entries().items():
        with open(os.path.join(V, "known.d", prop + ".json"), "w") as f:
            json.dump({"known": lst, "fixed": FIXED[prop]}, f, indent=1)
        print(prop, len(lst), "known entries")
