#!/venv/bin/python
"""Writes known.d/C07.json, C08.json, C10.json from the compact tables below (one row per confirmed
defect of ppci.arch.riscv; each row expands to fnmatch patterns over violation keys, keyed by
instruction class / operand / value category so that any other violation is still reported).
Run harness/mkmanifest.py afterwards.  Rows whose defect has been repaired by an applied fix move to FIXED."""
import json
import os

V = os.path.dirname(os.path.dirname(os.path.abspath(__file__)))

# ---- C10: immediates outside the representable range are accepted (silently wrapped / masked)
IMM_OUT = {
    "riscv": {
        "offset": ["addi_ins", "slti_ins", "sltiu_ins", "xori_ins", "ori_ins", "andi_ins", "Blr",
                   "Lb", "Lh", "Lw", "Lbu", "Lhu", "Sb", "Sh", "Sw"],
        "imm": ["SlliShiftImm", "SrliShiftImm", "SraiShiftImm", "Lui", "Auipc", "Csrwi", "Csrsi", "Csrci"],
    },
    "rvc": {
        "imm": ["CLi", "CLui", "CAddi16sp", "CAddi4spn", "CSlli", "c_srli_ins", "c_srai_ins"],
        "offset": ["CLw", "CSw", "CLwsp", "CSwsp"],
    },
}
# ---- C10: displacements in [2^(n-1), 2^n) are accepted by the relocations (bitfun.wrap_negative)
TARGET_OUT = {
    "riscv": ["B", "Bl", "beq_ins", "bne_ins", "blt_ins", "bgt_ins", "bge_ins", "bge_ins#2", "bltu_ins", "bgtu_ins",
              "bgeu_ins", "bleu_ins"],
    "rvc": ["CB", "CBl", "CJ", "CJal", "CBeqz", "CBnez"],
}
ODD_SYMBOL = ["Adrl", "Adrlrel", "Adru", "Adrurel", "Loadlrel"]
# ---- 3-bit register fields (x8..x15) silently wrap other registers: class -> (printed mnemonic, operand shapes)
# shapes are the printed operand lists with the wrapped slot written x[0-7]
PRIME = {
    "csub_ins": ("c.sub", ["x[0-7], x*", "x*, x[0-7]"]),
    "cxor_ins": ("c.xor", ["x[0-7], x*", "x*, x[0-7]"]),
    "cor_ins": ("c.or", ["x[0-7], x*", "x*, x[0-7]"]),
    "cand_ins": ("c.and", ["x[0-7], x*", "x*, x[0-7]"]),
    "c_srli_ins": ("c.srli", ["x[0-7], x*, *"]),
    "c_srai_ins": ("c.srai", ["x[0-7], x*, *"]),
    "c_andi_ins": ("c.andi", ["x[0-7], x*, *"]),
    "CLw": ("c.lw", ["x[0-7], *(x*)", "x*, *(x[0-7])"]),
    "CSw": ("c.sw", ["x[0-7], *(x*)", "x*, *(x[0-7])"]),
    "CBeqz": ("c.beqz", ["x[0-7], L_t*"]),
    "CBnez": ("c.bneqz", ["x[0-7], L_t*"]),
    "CAddi4spn": ("c.addi4spn", ["x[0-7] *"]),
}
# ---- operand combinations that are a different / reserved encoding
RESERVED = {
    "CAddi": ("c.addi x0, x0, *", "c.addi with rd = x0 is the encoding of c.nop"),
    "CJr": ("c.jr x0", "c.jr x0 is a reserved encoding"),
    "CJalr": ("c.jalr x0", "c.jalr x0 is the encoding of c.ebreak"),
    "CLui": ("c.lui x2, *", "c.lui with rd = x2 is the encoding of c.addi16sp"),
    "CLwsp": ("c.lwsp x0,*", "c.lwsp with rd = x0 is a reserved encoding"),
    "CMovr": ("c.mv x*, x0", "c.mv rd, x0 is the encoding of c.jr rd"),
}
# ---- three-operand spelling "c.op rd, rs, imm": rs is not encoded, rs != rd is accepted
DIALECT = {"CSlli": "c.slli", "c_srli_ins": "c.srli", "c_srai_ins": "c.srai", "c_andi_ins": "c.andi"}


def entries():
    c08, c10, c07 = [], [], []

    def add(lst, prop, key, what):
        lst.append({"property": prop, "key": key, "what": what})

    # ---------------- shared by C08 and C10 (accepted operands that are encoded as something else)
    for prop, lst in (("C08", c08), ("C10", c10)):
        add(lst, prop, "%s:riscv:bge_ins#2:*" % prop,
            "riscv Ble (make_branch('bge', 0b101, True)) prints 'bge rn, rm' but encodes bge rm, rn: the mnemonic should be ble "
            "(fix: proposed_fixes/C08-riscv-ble-mnemonic.patch)")
        for cls, mn in (("CAddi", "c.addi"), ("c_andi_ins", "c.andi")):
            add(lst, prop, "%s:rvc:%s:*:%s x*, x*, -*" % (prop, cls, mn),
                "%s: imm[5] (instruction bit 12) is never set, so negative immediates are encoded as imm + 32 "
                "(c.addi x10, x10, -1 -> c.addi x10, 31) (fix: proposed_fixes/C10-rvc-sign-bit-and-shamt.patch)" % mn)
        for pat in ("1[6-9]", "2[0-9]", "3[01]"):
            add(lst, prop, "%s:rvc:CSlli:*:c.slli x*, x*, %s" % (prop, pat),
                "c.slli masks the shift amount with 0xF: shamt 16..31 is encoded as shamt - 16 "
                "(fix: proposed_fixes/C10-rvc-sign-bit-and-shamt.patch)")
        for cls, mn in sorted(DIALECT.items()):
            what = ("%s rd, rs, imm: rs is not encoded and rs != rd is accepted (the instruction computes rd = rd op imm)" % mn)
            add(lst, prop, "%s:rvc:%s:*:rs:sweep:*" % (prop, cls), what)
            add(lst, prop, "%s:rvc:%s:*:rd:sweep:*" % (prop, cls), what + "; rd outside x8..x15 wraps")
            add(lst, prop, "%s:rvc:%s:*:%s x10, x11, *" % (prop, cls, mn), what)
        for cls, (mn, shapes) in sorted(PRIME.items()):
            for sh in shapes:
                add(lst, prop, "%s:rvc:%s:*:%s %s" % (prop, cls, mn, sh),
                    "%s: a register outside x8..x15 in a 3-bit register field is silently wrapped (num - 8 mod 8) instead of "
                    "rejected; the repository tests (test_riscvrvcasm.py) assemble such operands" % mn)
        for cls, (pat, what) in sorted(RESERVED.items()):
            add(lst, prop, "%s:rvc:%s:*:%s" % (prop, cls, pat), what + ", accepted without error")
    # ---------------- C08 only: macro instructions
    add(c08, "C08", "C08:rvc:Addiv:*:addi x*, x*, -*", "Addiv selects c.addi for -32..-1, which CAddi encodes with the wrong sign "
        "(fix: proposed_fixes/C10-rvc-sign-bit-and-shamt.patch)")
    for cls in ("Beqv", "Bnev"):
        add(c08, "C08", "C08:rvc:%s:*" % cls, "%s renders 'b(n)eq rn, rm, target' as c.b(n)eqz rn and ignores rm (unused macro)" % cls)
    for cls, mn in (("Lwv", "lw"), ("Swv", "sw")):
        add(c08, "C08", "C08:rvc:%s:*:m4=[123]:*" % cls,
            "%s selects c.%s for any offset in 0..127; offsets that are not multiples of 4 lose their low bits" % (cls, mn))
    # ---------------- C10 only
    for which, slots in sorted(IMM_OUT.items()):
        for slot, classes in sorted(slots.items()):
            for cls in classes:
                add(c10, "C10", "C10:%s:%s:*:%s:out:*" % (which, cls, slot),
                    "%s: values of '%s' outside the representable range are accepted and wrapped / masked "
                    "(Token.__setitem__ accepts [-2^n, 2^n), several encode() methods mask explicitly)" % (cls, slot))
    for which, classes in sorted(TARGET_OUT.items()):
        for cls in classes:
            add(c10, "C10", "C10:%s:%s:*:target:out:*" % (which, cls),
                "%s: displacements in [2^(n-1), 2^n) are accepted by the relocation (bitfun.wrap_negative) and alias "
                "backward branches (fix: proposed_fixes/C10-riscv-relocation-signed-range.patch)" % cls)
    for cls in ODD_SYMBOL:
        add(c10, "C10", "C10:riscv:%s:*:label:addr:odd:*" % cls,
            "%s: a symbol at an odd address (byte data) is refused with an AssertionError although %%hi/%%lo can express it" % cls)
    # ---------------- C07
    add(c07, "C07", "C07:rvc:CAddi:*", "CAddi declares rd write-only although c.addi reads rd "
        "(fix: proposed_fixes/C07-rvc-read-write-annotations.patch)")
    for cls, mn in (("csub_ins", "c.sub"), ("cxor_ins", "c.xor"), ("cor_ins", "c.or"), ("cand_ins", "c.and")):
        add(c07, "C07", "C07:rvc:%s:*" % cls, "%s rd, rn: rd is declared write-only although the instruction reads it "
            "(fix: proposed_fixes/C07-rvc-read-write-annotations.patch)" % mn)
    add(c07, "C07", "C07:rvc:CJal:*", "c.jal writes x1 (ra) but CJal declares no written register "
        "(fix: proposed_fixes/C07-rvc-read-write-annotations.patch)")
    add(c07, "C07", "C07:rvc:CJalr:*", "c.jalr writes x1 (ra) but CJalr declares no written register "
        "(fix: proposed_fixes/C07-rvc-read-write-annotations.patch)")
    add(c07, "C07", "C07:rvc:CAddi16sp:*", "c.addi16sp changes x2 (sp) but CAddi16sp declares no written register "
        "(fix: proposed_fixes/C07-rvc-read-write-annotations.patch)")
    return {"C07": c07, "C08": c08, "C10": c10}


FIXED = {"C07": [], "C08": [], "C10": []}

if __name__ == "__main__":
    for prop, lst in entries().items():
        with open(os.path.join(V, "known.d", prop + ".json"), "w") as f:
            json.dump({"known": lst, "fixed": FIXED[prop]}, f, indent=1)
        print(prop, len(lst), "known entries")
