"""Per-call time limit for calls into ppci (engines C20/C33).

A changed /repo may loop forever (e.g. an encoder whose termination test is broken).  `limited(fn)`
runs fn() under a CPU-time interval timer and raises CallTimeout, which the engine records as the observed
outcome ({"ok": false, "exc": "CallTimeout"}) so that TLC judges it, instead of hanging the check.
After MAX_TIMEOUTS time-outs charged to the same `what`, further calls are not made at all (they are
recorded as CallSkippedAfterTimeouts), so a looping function costs seconds, not hours."""
import signal

MAX_TIMEOUTS = 3
_count = {}


class CallTimeout(Exception):
    pass


class CallSkippedAfterTimeouts(CallTimeout):
    """Not called: the same function already exceeded its time limit MAX_TIMEOUTS times."""


def _raise(signum, frame):
    raise CallTimeout()


def limited(fn, seconds=2.0, what=None):
    """The limit is CPU time of this process (ITIMER_PROF), so that a loaded machine cannot turn a slow but
    terminating call into a time-out; a wall-clock backstop of 30 x seconds covers calls that block."""
    if what is not None and _count.get(what, 0) >= MAX_TIMEOUTS:
        raise CallSkippedAfterTimeouts()
    old_p = signal.signal(signal.SIGPROF, _raise)
    old_r = signal.signal(signal.SIGALRM, _raise)
    signal.setitimer(signal.ITIMER_PROF, seconds)
    signal.setitimer(signal.ITIMER_REAL, seconds * 30)
    try:
        return fn()
    except CallTimeout:
        if what is not None and _count.get(what, 0) < MAX_TIMEOUTS:
            _count[what] = _count.get(what, 0) + 1
        raise
    finally:
        signal.setitimer(signal.ITIMER_PROF, 0)
        signal.setitimer(signal.ITIMER_REAL, 0)
        signal.signal(signal.SIGPROF, old_p)
        signal.signal(signal.SIGALRM, old_r)
