"""Shared driver parts of the record-format engines C18 (Intel HEX) and C19 (S-record).

Python here only drives ppci, splits the written text into lines and maps TLC's
verdicts back to cases; the reader that judges the files is tla/IHex*.tla /
tla/SRec*.tla."""
from . import tlc as tlcmod


def pair(addr):
    """32-bit address as {hi, lo} 16-bit halves (TLC integers are 32 bit).
    Anything that is not an address below 2^32 becomes the impossible {-1, -1}."""
    if not isinstance(addr, int) or isinstance(addr, bool) or addr < 0 or addr >= 1 << 32:
        return {"hi": -1, "lo": -1}
    return {"hi": addr >> 16, "lo": addr & 0xFFFF}


def byte_list(data):
    return [int(b) & 255 for b in bytes(data)]


def split_lines(text):
    """The only processing of the written text: cut at newlines.  A final newline
    does not start another line; every other line (also an empty one) is handed to
    the specification as it is."""
    lines = text.split("\n")
    if lines and lines[-1] == "":
        lines.pop()
    return lines


def codes(line):
    return [min(ord(c), 255) for c in line]


def exc_name(e):
    return type(e).__name__


def run_trace(ctx, module, cfg, files, line_clauses, what, label):
    """Run the Trace module over `files` and report each violated clause.

    A violation key is  <file key with the clause inserted after the class tags>
    and, for per-record clauses, the line number and text of the offending record."""
    if not files:
        return None
    path = ctx.trace_file([{k: v for k, v in f.items() if k not in ("text", "input")} for f in files])
    res = ctx.tlc(module, cfg, label=label, env={"TRACE_FILE": path}, continue_=True)
    import os
    os.unlink(path)
    ctx.cov["traces_validated_against_impl"] += len(files)
    seen = set()
    for e in res.errors:
        st = e.last
        idx = st.get("i")
        if e.kind != "invariant" or not isinstance(idx, int) or not 1 <= idx <= len(files):
            raise tlcmod.MachineryError("TLC error without file index in %s: %s\n%s" % (module, e, e.text[:2000]))
        if e.name == "Domain":
            raise tlcmod.MachineryError("%s: harness produced a case outside the property's domain: %s" % (
                module, files[idx - 1]["key"]))
        f = files[idx - 1]
        ln = st.get("l", 0)
        key = f["key"].replace("{clause}", e.name)
        info = {"file": f["key"], "clause": e.name}
        if e.name in line_clauses and 1 <= ln <= len(f["text"]):
            key += ":l=%d:%s" % (ln, f["text"][ln - 1][:48])
            info["line"] = ln
            info["record"] = f["text"][ln - 1]
        if key in seen:
            continue
        seen.add(key)
        info["input"] = f["input"]
        info["reader_state"] = {k: v for k, v in st.get("rd", {}).items() if len(str(v)) < 300} if isinstance(st.get("rd"), dict) else {}
        info["text_head"] = f["text"][:6]
        ctx.violation(key, "%s [clause %s]" % (what(f, e.name, info), e.name), info)
    return res
