"""C26: translation-unit generator, the (trusted) tokenizer, and the drivers of ppci / gcc.

Trusted part: `lex_line` / `encode_unit` / `encode_obs` -- splitting text into lines and
pre-processing tokens (ISO C 6.4: identifier, pp-number, string / character literal, punctuator,
longest match) and writing them as integer lists.  Nothing here knows what a macro is.
The generator (`gen_unit`, `directed_units`) is not trusted: whatever text it produces is lexed by
the tokenizer, judged by Cpp.tla, and given verbatim to the pre-processor under test.
"""
import io
import logging
import re
import subprocess

logging.getLogger("preprocessor").setLevel(logging.CRITICAL)   # "Ignoring pragma" etc. are not observations

KINDS = {"id": 1, "num": 2, "punct": 3, "str": 4, "chr": 5}
KIND_NAMES = {v: k for k, v in KINDS.items()}
PUNCTS = ["[", "]", "(", ")", "{", "}", ".", "->", "++", "--", "&", "*", "+", "-", "~", "!", "/", "%", "<<", ">>",
          "<", ">", "<=", ">=", "==", "!=", "^", "|", "&&", "||", "?", ":", ";", "...", "=", "*=", "/=", "%=", "+=",
          "-=", "<<=", ">>=", "&=", "^=", "|=", ",", "#", "##"]
_TOKEN_RE = re.compile(
    r"(?P<ws>[ \t]+)"
    r"|(?P<id>[A-Za-z_][A-Za-z0-9_]*)"
    r"|(?P<num>\.?[0-9](?:[eEpP][+-]|[A-Za-z0-9_.])*)"
    r'|(?P<str>"(?:[^"\\\n]|\\.)*")'
    r"|(?P<chr>'(?:[^'\\\n]|\\.)*')"
    r"|(?P<punct>" + "|".join(re.escape(p) for p in sorted(PUNCTS, key=len, reverse=True)) + ")"
)


class LexError(Exception):
    pass


def lex_line(text):
    """[(kind, spelling, preceded_by_white_space)] of one line (no newline inside)."""
    out = []
    pos = 0
    ws = False
    while pos < len(text):
        m = _TOKEN_RE.match(text, pos)
        if not m:
            raise LexError("cannot lex %r at %d" % (text, pos))
        pos = m.end()
        if m.lastgroup == "ws":
            ws = True
            continue
        out.append((m.lastgroup, m.group(), ws))
        ws = False
    return out


def lex_text(text):
    """Tokens of a whole text, line structure dropped (for pre-processor output)."""
    out = []
    for line in text.split("\n"):
        out.extend(lex_line(line.rstrip("\r")))
    return out


def enc_tok(kind, spelling, ws):
    return [KINDS[kind], 1 if ws else 0] + [ord(c) for c in spelling]


def encode_unit(text):
    """Source text -> list of lines, each a list of encoded tokens.  The first token of a line is
    preceded by white space (the new-line character, 5.1.1.2 / 6.4p3)."""
    lines = text.split("\n")
    if lines and lines[-1] == "":
        lines.pop()
    out = []
    for ln in lines:
        toks = lex_line(ln)
        out.append([enc_tok(k, s, ws or j == 0) for j, (k, s, ws) in enumerate(toks)])
    return out


def encode_obs(tokens):
    """[(kind, spelling)] -> observation record."""
    return {"ok": True, "exc": "", "toks": [[KINDS[k]] + [ord(c) for c in s] for k, s in tokens]}


def failed_obs(exc):
    return {"ok": False, "exc": exc, "toks": []}


def show_toks(enc):
    """Readable form of encoded tokens (observation or TLC state)."""
    return " ".join("".join(chr(c) for c in t[1:]) for t in enc)


# ---- pre-processors under observation ---------------------------------------
_PPCI_KIND = {"ID": "id", "NUMBER": "num", "FLOAT": "num", "STRING": "str", "CHAR": "chr"}


MAX_OUTPUT_TOKENS = 5000    # a unit has <= 60 tokens; a pre-processor that never stops producing is cut off


def ppci_observe(text, limit=10.0):
    """Run ppci's pre-processor on the text; observation = kinds and spellings of the tokens it
    yields (white-space / line markers dropped), or the exception class."""
    from . import watchdog
    try:
        from ppci.lang.c import CPreProcessor, COptions
        from ppci.lang.c.utils import LineInfo
    except Exception as e:  # a changed tree may not import
        return failed_obs("Import" + type(e).__name__)

    def run():
        pre = CPreProcessor(COptions())
        toks = []
        for t in pre.process_file(io.StringIO(text), "unit.c"):
            if isinstance(t, LineInfo) or t.typ in ("WS", "BOL"):
                continue
            toks.append((_PPCI_KIND.get(t.typ, "punct"), t.val))
            if len(toks) > MAX_OUTPUT_TOKENS:
                raise OverflowError("too many tokens")
        return toks

    try:
        toks = watchdog.limited(run, limit, what=None)
    except watchdog.CallTimeout:
        return failed_obs("CallTimeout")
    except RecursionError:
        return failed_obs("RecursionError")
    except MemoryError:
        return failed_obs("MemoryError")
    except Exception as e:  # outcome class is part of the observation
        return failed_obs(type(e).__name__)
    try:
        for k, s in toks:
            if not isinstance(s, str) or not s or any(ord(c) > 255 or c == "\n" for c in s):
                return failed_obs("BadTokenValue")
        return encode_obs(toks)
    except Exception as e:
        return failed_obs("Unencodable" + type(e).__name__)


def ppci_text_observe(text, limit=10.0):
    """Same unit through ppci.api.preprocess (printed text), re-lexed with the tokenizer."""
    from . import watchdog
    try:
        from ppci.api import preprocess
    except Exception as e:  # a changed tree may not import
        return failed_obs("Import" + type(e).__name__)

    def run():
        out = io.StringIO()
        f = io.StringIO(text)
        f.name = "unit.c"
        preprocess(f, out)
        return out.getvalue()

    try:
        printed = watchdog.limited(run, limit, what=None)
    except watchdog.CallTimeout:
        return failed_obs("CallTimeout")
    except RecursionError:
        return failed_obs("RecursionError")
    except Exception as e:
        return failed_obs(type(e).__name__)
    try:
        lines = [ln for ln in printed.split("\n") if ln != '# 1 "unit.c"']   # the line marker of the unit itself
        return encode_obs([(k, s) for k, s, _ in lex_text("\n".join(lines))])
    except LexError:
        return failed_obs("UnlexableOutput")


def gcc_observe(text):
    """Reference guard: gcc -E -P on the same text."""
    try:
        r = subprocess.run(["gcc", "-E", "-P", "-std=c11", "-w", "-x", "c", "-"], input=text, capture_output=True,
                           text=True, timeout=20)
    except Exception as e:
        return failed_obs("gcc:" + type(e).__name__)
    if r.returncode != 0:
        return failed_obs("gcc-error")
    try:
        return encode_obs([(k, s) for k, s, _ in lex_text(r.stdout)])
    except LexError:
        return failed_obs("gcc-unlexable")


# =============================================================================
# generator (untrusted)
# =============================================================================
OBJ_NAMES = ["A", "B", "C", "N", "M"]
FN_NAMES = ["f", "g", "h", "k"]
PARAMS = ["x", "y", "z"]
PLAIN_IDS = ["a", "b", "c", "u", "v"]
NUMS = ["0", "1", "2", "3", "7", "10"]
OPS = ["+", "-", "*", "+", "-", "<", "=", "&", "|", "!", ";", "[", "]"]
LITS = ['"s"', '"q\\"r"', "'c'", "'\"'", '"\\\\"', '"a b"']
BOUNDARY = ["0", "1", "2", "3", "5", "7", "63", "64", "0u", "1u", "2U", "7u", "1L", "1UL", "3ull", "010", "0x10",
            "0x7FFFFFFFFFFFFFFF", "0x8000000000000000", "0xFFFFFFFFFFFFFFFF", "9223372036854775807",
            "18446744073709551615u", "9223372036854775808u", "4294967295", "4294967296", "2147483648",
            "0xFFFFFFFF", "0xffffffffu", "9223372036854775808", "18446744073709551616", "08", "1.0", "0x", "1z"]
BIN_OPS = ["+", "-", "*", "/", "%", "<<", ">>", "<", ">", "<=", ">=", "==", "!=", "&", "^", "|", "&&", "||"]
M64 = (1 << 64) - 1


def render(tokens, rng, tight=0.35):
    """tokens: list of spellings (None = forced space marker is not used).  Joins them with single
    spaces, dropping a space with probability `tight` where the text still lexes to the same tokens."""
    if not tokens:
        return ""
    out = tokens[0]
    for prev, t in zip(tokens, tokens[1:]):
        if rng.random() < tight:
            try:
                if [s for _, s, _ in lex_line(prev + t)] == [prev, t]:
                    out += t
                    continue
            except LexError:
                pass
        out += " " + t
    return out


class _Ev:
    """The generator's own idea of #if arithmetic -- used only to pick comparison constants that make
    a condition sensitive to the arithmetic rules.  Not an oracle: TLC judges every unit."""

    class Undef(Exception):
        pass

    @staticmethod
    def lit(s):
        t = s.lower().rstrip("ul")
        suf = s.lower()[len(t):]
        try:
            v = int(t, 16) if t.startswith("0x") else int(t, 8) if t.startswith("0") and len(t) > 1 else int(t)
        except ValueError:
            raise _Ev.Undef()
        if v > M64:
            raise _Ev.Undef()
        u = "u" in suf or v >= 1 << 63
        return (v, u)

    @staticmethod
    def wrap(v, u):
        if u:
            return (v & M64, True)
        if not -(1 << 63) <= v < (1 << 63):
            raise _Ev.Undef()
        return (v, False)

    @classmethod
    def ev(cls, e, env):
        k = e[0]
        if k == "lit":
            return cls.lit(e[1])
        if k == "id":
            if e[1] in env:
                return cls.lit(env[e[1]])
            return (0, False)
        if k == "defined":
            return (1 if e[2] else 0, False)
        if k == "un":
            v, u = cls.ev(e[2], env)
            if e[1] == "!":
                return (int(v == 0), False)
            if e[1] == "-":
                return cls.wrap(-v, u)
            if e[1] == "~":
                return cls.wrap(~v, u)
            return (v, u)
        if k == "cond":
            c, _ = cls.ev(e[1], env)
            ua = cls.typ(e[2], env) or cls.typ(e[3], env)
            v, _ = cls.ev(e[2] if c else e[3], env)
            return cls.wrap(v, ua)
        op = e[1]
        a, ua = cls.ev(e[2], env)
        if op == "&&" and not a:
            return (0, False)
        if op == "||" and a:
            return (1, False)
        b, ub = cls.ev(e[3], env)
        if op in ("&&", "||"):
            return (int(bool(b)), False)
        if op in ("<<", ">>"):
            if (not ub and b < 0) or b >= 64 or (not ua and a < 0):
                raise cls.Undef()
            return cls.wrap(a << b if op == "<<" else a >> b, ua)
        u = ua or ub
        if u:
            a &= M64
            b &= M64
        if op in ("/", "%"):
            if b == 0:
                raise cls.Undef()
            q = abs(a) // abs(b)
            if (a < 0) != (b < 0):
                q = -q
            return cls.wrap(q if op == "/" else a - q * b, u)
        if op in ("<", ">", "<=", ">=", "==", "!="):
            return (int({"<": a < b, ">": a > b, "<=": a <= b, ">=": a >= b, "==": a == b, "!=": a != b}[op]), False)
        return cls.wrap({"+": a + b, "-": a - b, "*": a * b, "&": a & b, "^": a ^ b, "|": a | b}[op], u)

    @classmethod
    def typ(cls, e, env):
        try:
            return cls.ev(e, env)[1]
        except cls.Undef:
            return False


def expr_text(e):
    k = e[0]
    if k == "lit" or k == "id":
        return [e[1]]
    if k == "defined":
        return ["defined", "(", e[1], ")"] if e[3] else ["defined", e[1]]
    if k == "un":
        return [e[1]] + expr_text_p(e[2])
    if k == "cond":
        return expr_text_p(e[1]) + ["?"] + expr_text_p(e[2]) + [":"] + expr_text_p(e[3])
    return expr_text_p(e[2]) + [e[1]] + expr_text_p(e[3])


def expr_text_p(e):
    t = expr_text(e)
    return t if e[0] in ("lit", "id", "defined") else ["("] + t + [")"]


class UnitGen:
    """One random translation unit.  `profile` shifts the weights between macro replacement and
    conditional inclusion."""

    def __init__(self, rng, profile):
        self.rng = rng
        self.profile = profile
        r = rng
        nobj = r.choice([0, 1, 1, 2, 2, 3])
        nfn = r.choice([0, 1, 1, 2, 2, 3])
        if profile == "cond":
            nobj, nfn = r.choice([0, 1, 2]), r.choice([0, 0, 1])
        if nobj + nfn == 0:
            nobj = 1
        self.objs = r.sample(OBJ_NAMES, nobj)
        self.fns = {n: r.choice([0, 1, 1, 1, 2, 2, 3]) for n in r.sample(FN_NAMES, nfn)}
        self.defined_now = set()   # generator's guess of what is defined (for `defined`), untrusted
        self.values = {}           # object-like macros whose body is a single literal
        self.mark = 0
        self.lines = []

    # -- replacement lists
    def body(self, name, params):
        r = self.rng
        n = r.choice([0, 1, 1, 2, 2, 3, 3, 4, 5])
        toks = []
        while len(toks) < n:
            c = r.random()
            if params and c < 0.30:
                toks.append(r.choice(params))
            elif c < 0.50:
                toks.extend(self.macro_ref(name, params, depth=1))
            elif params and c < 0.60:
                toks.extend(["#", r.choice(params)])
            elif c < 0.74 and (params or r.random() < 0.5):
                toks.extend([self.paste_operand(params), "##", self.paste_operand(params)])
                while r.random() < 0.2:
                    toks.extend(["##", self.paste_operand(params)])
            elif c < 0.84:
                toks.append(r.choice(PLAIN_IDS + NUMS))
            elif c < 0.87:
                toks.append(r.choice(LITS))
            elif c < 0.885 and not params:
                toks.append("#")
            else:
                toks.append(r.choice(OPS))
        return toks

    def paste_operand(self, params):
        r = self.rng
        c = r.random()
        if params and c < 0.6:
            return r.choice(params)
        if c < 0.8:
            return r.choice(PLAIN_IDS + self.objs + list(self.fns))
        if c < 0.92:
            return r.choice(NUMS)
        return r.choice(["+", "-", "<", "=", "&", ">"])

    def macro_ref(self, me, params, depth):
        """Reference to a macro of the unit (possibly `me` itself) inside a replacement list."""
        r = self.rng
        names = self.objs + list(self.fns)
        n = me if (me in names and r.random() < 0.3) else r.choice(names)
        if n in self.fns and r.random() < 0.75:
            args = []
            for _ in range(self.fns[n]):
                c = r.random()
                if params and c < 0.5:
                    args.append([r.choice(params)])
                elif c < 0.6:
                    args.append([])
                elif c < 0.75 and depth < 2:
                    args.append(self.macro_ref(me, params, depth + 1))
                else:
                    args.append([r.choice(PLAIN_IDS + NUMS + names)])
            return self.call(n, args)
        return [n]

    def call(self, n, args):
        out = [n, "("]
        for j, a in enumerate(args):
            if j:
                out.append(",")
            out.extend(a)
        return out + [")"]

    # -- uses
    def arg(self, depth):
        r = self.rng
        c = r.random()
        names = self.objs + list(self.fns)
        if c < 0.12:
            return []
        if c < 0.30:
            return [r.choice(PLAIN_IDS + NUMS)]
        if c < 0.45:
            return [r.choice(names)]
        if c < 0.65 and depth < 3:
            return self.use(depth + 1)
        if c < 0.73:
            return ["(", r.choice(PLAIN_IDS), ",", r.choice(PLAIN_IDS + NUMS + names), ")"]
        if c < 0.85:
            return [r.choice(PLAIN_IDS + names), r.choice(["+", "-", "*"]), r.choice(NUMS + names)]
        if c < 0.92:
            return [r.choice(PLAIN_IDS), r.choice(PLAIN_IDS + names)]
        if c < 0.96:
            return [r.choice(LITS)]
        return [r.choice(["+", "-"]), r.choice(NUMS)]

    def use(self, depth=0):
        r = self.rng
        names = self.objs + list(self.fns)
        live = sorted(self.defined_now)
        n = r.choice(live) if live and r.random() < 0.85 else r.choice(names)
        if n not in self.fns:
            return [n]
        c = r.random()
        if c < 0.10:
            return [n]                                 # function-like name without arguments
        np_ = self.fns[n]
        if c < 0.13:
            np_ = max(0, np_ + r.choice([-1, 1]))      # wrong count: constraint violation, not judged
        out = self.call(n, [self.arg(depth) for _ in range(np_)])
        if c > 0.93 and depth == 0:
            out += ["(", r.choice(NUMS + names), ")"]   # f(..)(..): a result that is called again
        return out

    def text_lines(self):
        r = self.rng
        toks = []
        for _ in range(r.choice([1, 1, 2, 2, 3])):
            c = r.random()
            if c < 0.75:
                toks.extend(self.use())
            elif c < 0.9:
                toks.append(r.choice(PLAIN_IDS + NUMS))
            else:
                toks.append(r.choice(OPS))
        self.mark += 1
        toks = ["t%d" % self.mark] + toks
        # sometimes split over two lines (an invocation may span lines)
        if len(toks) > 3 and r.random() < 0.15:
            cut = r.randrange(1, len(toks))
            return [render(toks[:cut], r), render(toks[cut:], r)]
        return [render(toks, r)]

    def define_line(self, n):
        r = self.rng
        if n in self.fns:
            params = PARAMS[: self.fns[n]]
            if r.random() < 0.15:
                params = r.sample(PARAMS, len(params))
            head = "#define %s(%s)" % (n, (", " if r.random() < 0.3 else ",").join(params))
            body = self.body(n, params)
        else:
            head = "#define %s" % n
            if r.random() < 0.25:
                body = [r.choice(NUMS + ["0u", "1u", "5"])]
                self.values[n] = body[0]
            else:
                body = self.body(n, [])
                self.values.pop(n, None)
        # keep ## off the ends
        while body and body[0] == "##":
            body.pop(0)
        while body and body[-1] == "##":
            body.pop()
        self.defined_now.add(n)
        if r.random() < 0.1:
            head = head.replace("#define", r.choice(["# define", "#  define", " #define"]))
        return head + ((" " + render(body, r)) if body else "")

    # -- #if expressions
    def leaf(self):
        r = self.rng
        c = r.random()
        names = self.objs + list(self.fns)
        if c < 0.55:
            return ("lit", r.choice(BOUNDARY[:28] if r.random() < 0.97 else BOUNDARY))
        if c < 0.70:
            n = r.choice(names + ["Q"])
            return ("defined", n, n in self.defined_now, r.random() < 0.5)
        if c < 0.85 and self.values:
            return ("id", r.choice(sorted(self.values)))
        if c < 0.93:
            return ("id", r.choice(["Q", "a"] + names))
        return ("un", "-", ("lit", r.choice(["1", "2", "7", "1u", "9223372036854775807"])))

    def tree(self, depth):
        r = self.rng
        if depth == 0 or r.random() < 0.25:
            return self.leaf()
        c = r.random()
        if c < 0.15:
            return ("un", r.choice(["-", "~", "!", "-", "+"]), self.tree(depth - 1))
        if c < 0.23:
            return ("cond", self.tree(depth - 1), self.tree(depth - 1), self.tree(depth - 1))
        op = r.choice(BIN_OPS)
        a, b = self.tree(depth - 1), self.tree(depth - 1)
        if op in ("/", "%") and r.random() < 0.9:
            b = r.choice([("lit", "2"), ("lit", "3"), ("un", "-", ("lit", "2")), ("lit", "2u"), ("lit", "7"), b])
            if r.random() < 0.5:
                a = r.choice([("un", "-", ("lit", "7")), ("lit", "7"), ("un", "-", ("lit", "5")), ("lit", "5"), a])
        if op in ("<<", ">>") and r.random() < 0.9:
            b = ("lit", r.choice(["0", "1", "3", "31", "62", "63", "64", "1u"]))
        return ("bin", op, a, b)

    def condition(self):
        """Tokens of a controlling expression; half of the time compared with the value the generator
        believes it has, so that the taken group depends on the arithmetic rules."""
        r = self.rng
        e = self.tree(r.choice([1, 2, 2, 3, 3]))
        c = r.random()
        if c < 0.6:
            try:
                v, u = _Ev.ev(e, self.values)
                if r.random() < 0.3:
                    v += r.choice([-1, 1])
                lit = ("lit", "%d%s" % (v, "u" if u else "")) if v >= 0 else ("un", "-", ("lit", str(-v)))
                e = ("bin", r.choice(["==", "==", "==", "!=", "<", ">="]), e, lit)
            except (_Ev.Undef, RecursionError):
                pass
        toks = expr_text(e)
        return toks

    def cond_group(self, depth):
        r = self.rng
        names = self.objs + list(self.fns)
        c = r.random()
        if c < 0.65 or self.profile == "cond" and c < 0.8:
            head = "#if " + render(self.condition(), r, 0.2)
        elif c < 0.85:
            head = "#ifdef " + r.choice(names + ["Q"])
        else:
            head = "#ifndef " + r.choice(names + ["Q"])
        out = [head] + self.block(depth + 1, small=True)
        for _ in range(r.choice([0, 0, 0, 1, 1, 2])):
            out.append("#elif " + render(self.condition(), r, 0.2))
            out.extend(self.block(depth + 1, small=True))
        if r.random() < 0.55:
            out.append("#else")
            out.extend(self.block(depth + 1, small=True))
        out.append(r.choice(["#endif", "#endif", "# endif"]))
        return out

    def block(self, depth, small=False):
        r = self.rng
        out = []
        n = r.choice([1, 1, 2]) if small else r.choice([3, 4, 5, 6, 7, 8])
        names = self.objs + list(self.fns)
        for _ in range(n):
            c = r.random()
            undefd = [m for m in names if m not in self.defined_now]
            if undefd and (c < 0.45 or (not small and len(undefd) == len(names))):
                out.append(self.define_line(r.choice(undefd)))
            elif c < 0.52 and self.defined_now:
                m = r.choice(sorted(self.defined_now))
                out.append("#undef " + m)
                self.defined_now.discard(m)
            elif c < 0.55:
                out.append(r.choice(["#", "#undef Q", ""]))
            elif c < 0.58 and self.defined_now:
                # redefinition without #undef (benign only if identical: mostly a constraint violation)
                out.append(self.define_line(r.choice(sorted(self.defined_now))))
            elif c < 0.58 + (0.28 if self.profile == "cond" else 0.12) and depth < 2:
                out.extend(self.cond_group(depth))
            else:
                out.extend(self.text_lines())
        return out

    def top(self):
        """Top level: every macro of the unit is defined somewhere, uses / conditional groups /
        #undef + redefinition are interleaved in random order (so some uses precede the definition)."""
        r = self.rng
        names = self.objs + list(self.fns)
        plan = ["def:" + n for n in names]
        plan += ["use"] * r.choice([1, 2, 2, 3, 4])
        ncond = r.choice([0, 0, 1, 1, 2]) if self.profile != "cond" else r.choice([1, 2, 2, 3])
        if self.profile == "macro" and r.random() < 0.6:
            ncond = 0
        plan += ["cond"] * ncond
        plan += ["redef"] * r.choice([0, 0, 0, 1])
        plan += ["misc"] * r.choice([0, 0, 0, 1])
        r.shuffle(plan)
        # start with a definition most of the time
        if r.random() < 0.8:
            j = next(k for k, it in enumerate(plan) if it.startswith("def:"))
            plan.insert(0, plan.pop(j))
        out = []
        for it in plan:
            if it.startswith("def:"):
                n = it[4:]
                if n in self.defined_now:
                    continue
                out.append(self.define_line(n))
            elif it == "use":
                out.extend(self.text_lines())
            elif it == "cond":
                out.extend(self.cond_group(0))
            elif it == "redef" and self.defined_now:
                m = r.choice(sorted(self.defined_now))
                out.append("#undef " + m)
                self.defined_now.discard(m)
                if r.random() < 0.8:
                    out.append(self.define_line(m))
                out.extend(self.text_lines())
            elif it == "misc":
                c = r.random()
                if c < 0.3:
                    out.append(r.choice(["#", "#undef Q", ""]))
                elif c < 0.6 and self.defined_now:
                    out.append(self.define_line(r.choice(sorted(self.defined_now))))   # mostly incompatible
                elif self.defined_now:
                    # benign redefinition: the same line again
                    prev = [ln for ln in out if ln.lstrip(" #").startswith("define")]
                    if prev:
                        out.append(r.choice(prev))
        return out

    def unit(self):
        lines = self.top()
        if not any(not ln.lstrip().startswith("#") and ln.strip() for ln in lines):
            lines.extend(self.text_lines())
        return "\n".join(lines) + "\n"


def count_tokens(text):
    return sum(len(lex_line(ln)) for ln in text.split("\n"))


def gen_unit(rng, profile=None, max_tokens=60):
    """A random unit of at most max_tokens tokens."""
    profile = profile or rng.choice(["macro", "macro", "mixed", "cond"])
    for _ in range(200):
        text = UnitGen(rng, profile).unit()
        try:
            n = count_tokens(text)
        except LexError:
            continue
        if 4 <= n <= max_tokens:
            return text
    raise RuntimeError("generator could not make a unit within the token budget")


# =============================================================================
# reference units: the examples of ISO/IEC 9899:2011 6.10.3.3 - 6.10.3.5 with the results the
# standard itself states (text typed from the standard; `@` and the comment of EXAMPLE 4 left out,
# the #include line of EXAMPLE 4 given as plain text).  Cpp.tla must reproduce them.
# =============================================================================
REFERENCE_UNITS = [
    ("std-6.10.3.5-example3", r"""#define x 3
#define f(a) f(x * (a))
#undef x
#define x 2
#define g f
#define z z[0]
#define h g(~
#define m(a) a(w)
#define w 0,1
#define t(a) a
#define p() int
#define q(x) x
#define r(x,y) x ## y
#define str(x) # x
f(y+1) + f(f(z)) % t(t(g)(0) + t)(1);
g(x+(3,4)-w) | h 5) & m
(f)^m(m);
p() i[q()] = { q(1), r(2,3), r(4,), r(,5), r(,) };
char c[2][6] = { str(hello), str() };
""", "ok", r"""f(2 * (y+1)) + f(2 * (f(2 * (z[0])))) % f(2 * (0)) + t(1);
f(2 * (2+(3,4)-0,1)) | f(2 * (~ 5)) & f(2 * (0,1))^m(0,1);
int i[] = { 1, 23, 4, 5, };
char c[2][6] = { "hello", "" };"""),
    ("std-6.10.3.5-example4", r"""#define str(s) # s
#define xstr(s) str(s)
#define debug(s, t) printf("x" # s "= %d, x" # t "= %s", x ## s, x ## t)
#define INCFILE(n) vers ## n
#define glue(a, b) a ## b
#define xglue(a, b) glue(a, b)
#define HIGHLOW "hello"
#define LOW LOW ", world"
debug(1, 2);
fputs(str(strncmp("abc\0d", "abc", '\4')
 == 0), s);
include xstr(INCFILE(2).h)
glue(HIGH, LOW);
xglue(HIGH, LOW)
""", "ok", r"""printf("x" "1" "= %d, x" "2" "= %s", x1, x2);
fputs("strncmp(\"abc\\0d\", \"abc\", '\\4') == 0", s);
include "vers2.h"
"hello";
"hello" ", world" """),
    ("std-6.10.3.5-example5", r"""#define t(x,y,z) x ## y ## z
int j[] = { t(1,2,3), t(,4,5), t(6,,7), t(8,9,),
 t(10,,), t(,11,), t(,,12), t(,,) };
""", "ok", "int j[] = { 123, 45, 67, 89, 10, 11, 12, };"),
    ("std-6.10.3.3-hash_hash", r"""#define hash_hash # ## #
#define mkstr(a) # a
#define in_between(a) mkstr(a)
#define join(c, d) in_between(c hash_hash d)
char p[] = join(x, y);
""", "ok", 'char p[] = "x ## y";'),
    ("std-6.10.3.4-nested-unspecified", r"""#define f(a) a*g
#define g(a) f(a)
f(2)(9)
""", "unspec", ""),
    ("std-6.10.3.5-example6-redefinition", "#define OBJ_LIKE (1-1)\n#define OBJ_LIKE   (1-1)  \n"
     "#define FUNC_LIKE(a) ( a )\n#define FUNC_LIKE( a )(    a    )\nOBJ_LIKE FUNC_LIKE(2)\n", "ok", "(1-1) ( 2 )"),
    ("std-6.10.3.5-example6-invalid-redefinition", "#define OBJ_LIKE (1-1)\n#define OBJ_LIKE (1 - 1)\nOBJ_LIKE\n",
     "invalid", ""),
    ("std-6.10.1-conversions", "#if -1 < 0u\nno\n#else\nyes\n#endif\n#if -7 / 2 == -3 && -7 % 2 == -1 && 5 / -2 == -2\nyes\n#endif\n"
     "#if 0xFFFFFFFFFFFFFFFF == -1\nyes\n#endif\n#if (2 || 1 / 0) && !(0 && 1 / 0) && (1 ? 2 : (1 / 0))\nyes\n#endif\n"
     "#if (1 ? -1 : 0u) > 0\nyes\n#endif\n",
     "ok", "yes yes yes yes yes"),
]


# =============================================================================
# directed units: one construct each (name, text)
# =============================================================================
DIRECTED_UNITS = [
    ("object-like", "#define A 1 + 2\nA A\n"),
    ("object-like-empty", "#define A\nx A y A\n"),
    ("object-like-empty-at-end", "#define A\nx A\n"),
    ("object-like-self", "#define A A + 1\nA\n"),
    ("object-like-mutual", "#define A B x\n#define B A y\nA B\n"),
    ("object-like-chain", "#define A B\n#define B C\n#define C 7\nA\n"),
    ("object-like-paren-body", "#define A (x)\nA(1)\n"),
    ("function-like", "#define f(x) [x]\nf(1) f(a b) f((1,2))\n"),
    ("function-like-zero-params", "#define f() z\nf() f( ) f\n"),
    ("function-like-three-params", "#define f(x,y,z) z y x\nf(1,2,3) f(,,) f(a,(b,c),d)\n"),
    ("function-like-without-paren", "#define f(x) [x]\nf + f ; f\n"),
    ("function-like-name-then-macro", "#define f(x) [x]\n#define A (1)\n#define B b\nf A f B\n"),
    ("function-like-name-from-object", "#define f(x) [x]\n#define g f\ng(1) g (2) g\n"),
    ("function-like-spans-lines", "#define f(x,y) x-y\nf(1,\n2) f\n(3,4)\n"),
    ("function-like-self", "#define f(x) f(x) + 1\nf(1) f(f(2))\n"),
    ("function-like-mutual", "#define f(x) g(x) a\n#define g(x) f(x) b\nf(1) g(2)\n"),
    ("function-like-result-called", "#define f(x) x\n#define g(y) <y>\nf(g)(1) f(f)(2)\n"),
    # a replacement that ends in (or contains) the bare name of a function-like macro whose "(" ... ")"
    # come from outside that replacement (6.10.3.4p4): judged where both readings of the rule agree
    ("tail-name-iso-example", "#define f(a) a*g\n#define g(a) f(a)\nf(2)(9)\n"),
    ("tail-name-other", "#define f(a) a+g\n#define g(a) [a]\nf(1)(2) f(1)(2)(3) f(1) (2)\n"),
    ("tail-name-self", "#define f(a) a f\nf(1)(2) f(1)(2)(3)\n"),
    ("tail-name-mutual-once", "#define f(a) a g\n#define g(a) a f\nf(1)(2) f(1)(2)(3) g(1)(2)(3)(4)\n"),
    ("tail-name-mutual-call", "#define f(a) a*g\n#define g(a) f(a)\nf(2)(9)(7)\n"),
    ("tail-name-mutual-inner", "#define f(a) a*g\n#define g(a) h(a)\n#define h(a) <a>\nf(2)(9) f(2)(f(3)(4))\n"),
    ("tail-name-object", "#define A f\n#define f(a) a A\nA(1)(2) f(1)(2)(3)\n"),
    ("tail-name-paren-from-macro-body", "#define f(a) a*g\n#define g(a) [a]\n#define p(x) f(x)(x)\n#define q f(1)(2)\np(3) q p(f(4)(5))\n"),
    ("tail-name-paren-from-macro-body-mutual", "#define f(a) a*g\n#define g(a) f(a)\n#define p(x) f(x)(x)\np(3)\n"),
    ("tail-name-paren-from-argument", "#define f(a) a*g\n#define g(a) [a]\n#define w(x) f(1) x\n#define v(x,y) x y\nw((2)) v(f(1),(2)) v(f,(1)(2))\n"),
    ("tail-name-paren-from-argument-mutual", "#define f(a) a*g\n#define g(a) f(a)\n#define v(x,y) x y\nv(f(1),(2))\n"),
    ("tail-name-middle", "#define f(a) g a\n#define g(a) {a}\nf((1)) f((1))(2) f(g)(3)\n"),
    ("tail-name-via-argument", "#define f(a) a\n#define g(a) [a]\nf(g)(1) f(f)(g)(2) f(g)(f(g)(3))\n"),
    ("argument-is-macro", "#define f(x) x x\n#define A 1 2\nf(A)\n"),
    ("argument-empty", "#define f(x) [x]\n#define g(x,y) [x|y]\nf() g(,) g(a,) g(,b)\n"),
    ("argument-prescan-hidden", "#define f(x) x\n#define g f(g)\ng\n"),
    ("argument-prescan-nested", "#define f(x) x+f(x)\n#define A f(A)\nf(A)\n"),
    ("argument-nested-calls", "#define f(x) (x)\n#define g(x,y) x*y\ng(f(1),f(g(2,3)))\n"),
    ("argument-unbalanced-in-body", "#define h g(~\n#define g(x) [x]\nh 5) h f(1))\n"),
    ("stringize-spaced", "#define s(x) #x\ns(a) s(a b) s( a  +  b ) s() s( ) s(a   b)\n"),
    ("stringize-adjacent", "#define s(x) #x\ns(a+b) s(a+ b) s((a,b)) s(f(1))\n"),
    ("stringize-escape", "#define s(x) #x\ns(\"q\\\"r\") s('\"') s(\"\\\\\") s('\\\\') s(\"a\\n\") s(\"a b\" 'c' d)\n"),
    ("stringize-not-expanded", "#define s(x) #x x\n#define A 1\ns(A)\n"),
    ("stringize-via-helper", "#define s(x) #x\n#define xs(x) s(x)\n#define A 1 +2\nxs(A) xs(A A)\n"),
    ("stringize-hash-space", "#define s(x) # x\ns(1) s(a,) \n#define t(x,y) #y #x\nt(a b,c)\n"),
    ("paste", "#define c(x,y) x##y\nc(a,b) c(a,1) c(1,2) c(+,=) c(<,<) c(-,>) c(x,) c(,y) c(,)\n"),
    ("paste-spaces", "#define c(x,y) x ## y\nc( a , b ) c(a b,c d)\n"),
    ("paste-chain", "#define c(x,y,z) x##y##z\nc(a,b,c) c(a,,c) c(,,c) c(a,,) c(1,2,3)\n"),
    ("paste-not-expanded", "#define c(x,y) x##y y\n#define A 1\n#define AA 2\nc(A,A)\n"),
    ("paste-result-expanded", "#define c(x,y) x##y\n#define AB 7\n#define A q\nc(A,B) c(A,)\n"),
    ("paste-result-self", "#define c(x,y) x##y\n#define ab c(a,b) z\nab\n"),
    ("paste-object-like", "#define A x ## y\n#define B 1 ## 2 ## 3\nA B\n"),
    ("paste-pp-number", "#define c(x,y) x##y\nc(1,x) c(12,ab) c(0,x1F) c(1,e) c(.,5) c(1,.)\n"),
    ("paste-hashhash-from-argument", "#define f(x) x\n#define g(x,y) x y\nf(a ## b) g(a ##, b)\n"),
    ("paste-hash-in-object-like", "#define A # x\n#define B x # y\nA B\n"),
    ("undef", "#define A 1\nA\n#undef A\nA\n#undef A\n#define A 2\nA\n"),
    ("redefinition-identical", "#define A 1 + 2\n#define A 1 + 2\n#define f(x) x  y\n#define f(x) x y\nA f(1)\n"),
    ("use-before-definition", "A f(1)\n#define A 1\n#define f(x) x\nA f(2)\n"),
    ("ifdef", "#define A\n#ifdef A\nyes\n#else\nno\n#endif\n#ifndef A\nno\n#else\nyes\n#endif\n#ifdef B\nno\n#endif\n"),
    ("if-elif-else", "#if 0\na\n#elif 0\nb\n#elif 1\nc\n#elif 1\nd\n#else\ne\n#endif\n#if 1\nf\n#elif 1\ng\n#else\nh\n#endif\n#if 0\ni\n#else\nj\n#endif\n"),
    ("if-nested", "#if 1\n#if 0\na\n#else\nb\n#endif\nc\n#else\n#if 1\nd\n#endif\ne\n#endif\n"),
    ("if-nested-in-skipped", "#if 0\n#if 1\na\n#else\nb\n#endif\n#elif 1\nc\n#ifdef Q\nd\n#elif 1\ne\n#endif\n#else\nf\n#endif\n"),
    ("ifdef-nested-in-skipped", "#if 0\n#ifdef Q\na\n#else\nb\n#endif\nc\n#else\nd\n#endif\n"),
    ("ifndef-nested-in-skipped", "#if 0\n#ifndef Q\na\n#else\nb\n#endif\nc\n#else\nd\n#endif\n#ifdef Q\n#ifndef Q\ne\n#elif 1\nf\n#endif\n#elif 1\ng\n#endif\n"),
    ("if-nested-in-done", "#if 1\na\n#else\n#if 1\nb\n#else\nc\n#endif\n#ifndef Q\nd\n#endif\n#endif\ne\n"),
    ("if-skipped-directives", "#if 0\n#define A 1\n#undef B\n#\n#bogus\n x y ( \n#else\n#define B 2\n#endif\nA B\n"),
    ("if-null-directive-skipped", "#if 0\n#\n#endif\nx\n#if 1\n#\ny\n#endif\n"),
    ("if-define-in-group", "#if 1\n#define A 1\n#else\n#define A 2\n#endif\nA\n#if 0\n#undef A\n#endif\nA\n"),
    ("if-defined", "#define A\n#if defined A && defined(A) && !defined B && !defined ( B )\nyes\n#endif\n#if defined(B) || defined A\nyes\n#endif\n"),
    ("if-macro-expanded", "#define A 3\n#define f(x) x+1\n#if A == 3 && f(2) == 3 && f(A)*2 == 5\nyes\n#endif\n#if B\nno\n#elif B == 0 && undefined_name == 0\nyes\n#endif\n"),
    ("if-function-like-name-last", "#define f(x) x\n#if 1 - f\na\n#endif\n#if f\nb\n#else\nc\n#endif\n#if 1 + f + 1\nd\n#endif\n"),
    ("if-truncating-division", "#if -7 / 2 == -3\na\n#endif\n#if -7 % 2 == -1\nb\n#endif\n#if 7 / -2 == -3\nc\n#endif\n#if 7 % -2 == 1\nd\n#endif\n#if -7 / -2 == 3\ne\n#endif\n"),
    ("if-unsigned-conversion", "#if -1 < 0u\nno\n#else\na\n#endif\n#if -1 > 0u\nb\n#endif\n#if (0u - 1) / 2 == 0x7FFFFFFFFFFFFFFF\nc\n#endif\n#if -1 / 2u == 0x7FFFFFFFFFFFFFFF\nd\n#endif\n"),
    ("if-unsigned-wrap", "#if 0u - 1 == 18446744073709551615u\na\n#endif\n#if ~0u == 0xFFFFFFFFFFFFFFFF\nb\n#endif\n#if 18446744073709551615u + 1 == 0\nc\n#endif\n#if -1u > 0\nd\n#endif\n"),
    ("if-literal-types", "#if 0xFFFFFFFFFFFFFFFF > 0\na\n#endif\n#if 0x8000000000000000 > 0\nb\n#endif\n#if 9223372036854775807 + 0 > 0\nc\n#endif\n#if 0xFFFFFFFFFFFFFFFF == -1\nd\n#endif\n#if 010 == 8 && 0x10 == 16 && 1L == 1 && 1ul == 1 && 2LLU == 2\ne\n#endif\n"),
    ("if-shifts", "#if 1u << 63 == 0x8000000000000000\na\n#endif\n#if 1 << 62 == 0x4000000000000000\nb\n#endif\n#if 0xFFFFFFFFFFFFFFFF >> 63 == 1\nc\n#endif\n#if (1u << 63) >> 62 == 2\nd\n#endif\n"),
    ("if-conditional-operator", "#if (1 ? 2 : 3) == 2 && (0 ? 2 : 3) == 3\na\n#endif\n#if (1 ? -1 : 0u) > 0\nb\n#endif\n#if (0 ? 0u : -1) > 0\nc\n#endif\n#if 1 ? 0 : 1\nno\n#else\nd\n#endif\n"),
    ("if-logic-bitwise", "#if (3 & 5) == 1 && (3 | 5) == 7 && (3 ^ 5) == 6 && ~0 == -1 && !0 == 1 && !5 == 0\na\n#endif\n#if 1 || 0 && 0\nb\n#endif\n#if (2 > 1) + (2 >= 2) + (1 < 2) + (2 <= 2) + (1 != 2) + (2 == 2) == 6\nc\n#endif\n"),
    ("if-precedence", "#if 1 + 2 * 3 == 7 && 8 - 4 - 2 == 2 && 16 / 4 / 2 == 2 && 1 << 2 + 1 == 8 && (1 | 2 & 3) == 3 && - - 1 == 1 && -1 - -1 == 0\na\n#endif\n"),
    ("if-short-circuit", "#if 0 && 1 / 0\nno\n#elif 1 || 1 / 0\na\n#endif\n#if 1 ? 1 : 1 / 0\nb\n#endif\n"),
    ("if-elif-not-evaluated", "#define A 0\n#if 1\na\n#elif 1 / A\nb\n#endif\n"),
    ("hash-from-macro-at-line-start", "#define H #\n#define D define\nH D x 1\nx\nH\n"),
    ("not-modelled-pragma", "a\n#pragma once\nb\n"),
    ("not-modelled-include", "#include <stddef.h>\nb\n"),
    ("not-modelled-line", "#line 7\nb\n"),
    ("not-modelled-error", "#if 0\n#error no\n#endif\na\n"),
    ("not-modelled-variadic", "#define f(...) __VA_ARGS__\nf(1,2)\n"),
    ("printed-empty-expansion-between", "#define E\n#define f(x)\na E b f(1)c +E+ -f(2)- a E+ f(3)E f(4)d\n"),
    ("printed-adjacent-tokens", "#define f(x) x\n#define m -\n#define p +\nf(a)b -m p+ f(1)2 f(<)< f(-)> m=\n"),
]
