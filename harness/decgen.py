"""Shared driver pieces of the m68k / xtensa parts of C08 / C07 (harness/m68kgen.py, harness/xtensagen.py).

Python here only records what ppci did and hands the records to TLC; the verdicts are TLC's (tla/M68k_Eval.tla,
tla/Xtensa_Eval.tla over tla/M68k.tla, tla/Xtensa.tla)."""
import json
import os
import random

from . import asmgen
from . import tlc as tlcmod
from . import tlcclean

CFG = "INIT Init\nNEXT Next\nCHECK_DEADLOCK FALSE\n"
LABEL = "L_t"


def signed32(v):
    """An integer of the printed text in its 32-bit two's complement reading (None: does not fit 32 bits)."""
    if -(1 << 31) <= v < (1 << 31):
        return v
    if v < (1 << 32):
        return v - (1 << 32)
    return None


def rng(ctx, salt):
    return random.Random(ctx.seed * 7919 + salt)  # own stream: the other parts' draws stay what they were


def mine(ctx, prop, isa):
    """None: normal run; True: replay of one of this part's cases; False: replay of somebody else's case."""
    if ctx.only is None:
        return None
    return str(ctx.only.get("key", "")).startswith("%s:%s:" % (prop, isa))


def restrict(ctx, recs):
    if ctx.only is None:
        return recs
    want = str(ctx.only.get("key", "")).split("::")[0]
    sel = [r for r in recs if r["key"] == want]
    if not sel:
        ctx.note("replay: the case %s was not regenerated (different tier / seed / tree?)" % ctx.only.get("key"))
    return sel


def run_laws(ctx, module, invariants, consts, label, out=None, workers=8):
    """Idiom M (+ G when `out` is given: the module writes its boundary table there).  A failing law is a defect
    of the specification itself: machinery failure."""
    cfg = "".join("CONSTANT %s = %s\n" % kv for kv in consts) + CFG + "".join("INVARIANT %s\n" % x for x in invariants)
    env = {"OUT_FILE": out} if out else {}
    res = ctx.tlc(module, cfg, label=label, env=env, workers=workers, coverage=False)
    for e in res.errors:
        raise tlcmod.MachineryError("a law of %s fails in the specification itself: %s\n%s" % (module, e, str(e.last)[:600] + "\n" + e.text[:1500]))
    tlcclean.clean(res, module)
    if out:
        try:
            with open(out) as f:
                t = json.load(f)
        except Exception as e:
            raise tlcmod.MachineryError("%s wrote no table: %s" % (module, e))
        os.unlink(out)
        return res, t
    return res, None


def judge(ctx, module, recs, invariants, label, workers=6, drop=("key", "text", "cls", "tag")):
    """Evaluate the records in an *_Eval module; [(record, clause name)] for every violated invariant."""
    if not recs:
        return []
    slim = [{k: v for k, v in r.items() if k not in drop} for r in recs]
    path = ctx.trace_file(slim)
    cfg = CFG + "".join("INVARIANT %s\n" % inv for inv in invariants)
    res = ctx.tlc(module, cfg, label=label, env={"TRACE_FILE": path}, continue_=True, workers=workers, coverage=False)
    os.unlink(path)
    tlcclean.clean(res, module, expect_states=len(recs) + 1 + (len(recs) + 15) // 16)
    ctx.cov["traces_validated_against_impl"] += len(recs)
    out, seen = [], set()
    for e in res.errors:
        idx = e.last.get("idx")
        if not isinstance(idx, int) or not 1 <= idx <= len(recs):
            raise tlcmod.MachineryError("TLC error without record index in %s: %s\n%s" % (module, e, e.text[:2000]))
        if (idx, e.name) in seen:
            continue
        seen.add((idx, e.name))
        out.append((recs[idx - 1], e.name))
    return out


def observe_encode(ins, sym=None, place=0):
    return asmgen.observe_encode(ins, sym, place)


def boundary(lo, hi, step, extra=()):
    """Candidate operand values around the ends of a range lo..hi (step): both sides of each end, the middle,
    zero, the sign change, half way (the two top bits differ).  Which of them are in range is TLC's decision."""
    vals = {lo - step, lo - 1, lo, lo + 1, lo + step, -step, -1, 0, 1, step, 2 * step, 3 * step, hi - step, hi - 1, hi, hi + 1,
            hi + step, 2 * hi + 2 * step, -(hi + step), (lo + hi) // (2 * step) * step, (lo + hi) // (2 * step) * step + step,
            hi // (2 * step) * step, hi // (2 * step) * step + step, lo // (2 * step) * step, lo // (2 * step) * step - step,
            hi // (4 * step) * step, lo // (4 * step) * step, hi // (4 * step) * 3 * step, lo // (4 * step) * 3 * step}
    vals.update(extra)
    return sorted(v for v in vals if -(1 << 31) < v < (1 << 31))
