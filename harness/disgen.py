"""X18 -- observation side of "disassembly inverts encoding" (tla/Dis.tla, Dis_Eval.tla).

Python here only (a) *projects* the pattern table of every instruction class of an instruction set
(token layout, fixed and variable bit patterns, operand kinds) by probing the real token objects bit by
bit, (b) builds instruction instances by reflection (pools of harness/asmgen2.py), (c) drives the real
code -- str(), Instruction.encode(), Instruction.decode() of the own class and of every other class of the
instruction set, Disassembler.disasm -- and (d) writes down what happened.  Nothing here says what a
decoder ought to return: that is Dis.tla's business, decided by TLC."""
import contextlib
import io
import logging

from . import asmgen2

W = 64  # integers travel as 64-bit two's complement bit lists (LSB first)


def ibits(v, w=W):
    v &= (1 << w) - 1
    return [(v >> k) & 1 for k in range(w)]


def bytes_bits(data):
    """bit k of byte n of the encoding is element 8*n+k+1 (TLA+ numbering) of the list"""
    out = []
    for b in data:
        out.extend((b >> k) & 1 for k in range(8))
    return out


# ---------------------------------------------------------------- projection of the pattern table
def _token_layout(cls):
    """byte offset of every token of the class in Instruction.decode's order (cls.tokens as written)"""
    offs = []
    pos = 0
    for t in cls.tokens:
        offs.append(pos)
        pos += t.Info.size // 8
    return offs, pos


def _probe_field(cls, field, offs):
    """global bit positions (1-based, LSB of the field first) the field occupies in the encoded bytes,
    found by setting one field bit at a time on a fresh token and reading Token.encode(); None when the
    field is not a plain bit field of one of the class's tokens."""
    for tcls, off in zip(cls.tokens, offs):
        if not hasattr(tcls, field):
            continue
        prop = getattr(tcls, field, None)
        width = getattr(prop, "_bitsize", None)
        if not isinstance(width, int) or width < 1 or width > 64:
            return None
        pos = []
        for k in range(width):
            try:
                t = tcls()
                setattr(t, field, 1 << k)
                data = t.encode()
                back = getattr(t, field)
            except Exception:
                return None
            ones = [8 * n + b for n, byte in enumerate(data) for b in range(8) if (byte >> b) & 1]
            if len(ones) != 1 or back != (1 << k):
                return None
            pos.append(8 * off + ones[0] + 1)
        return pos
    return None


def _operand_kind(farg):
    from ppci.arch.encoding import Constructor
    from ppci.arch.registers import Register

    c = farg._cls
    if isinstance(c, tuple):
        return "choice"
    if isinstance(c, type) and issubclass(c, Register):
        return "reg"
    if c is int:
        return "int"
    if c is str:
        return "label"
    if isinstance(c, type) and issubclass(c, Constructor):
        return "ctor"
    return "other"


def project_class(cls):
    """The class as a row of the pattern table.  `flat` = every operand is a register or an integer;
    `custom` = the class brings its own encoder beside the table (encode / set_user_patterns /
    relocations overridden somewhere below Instruction)."""
    from ppci.arch.encoding import Constructor, FixedPattern, Instruction, Transform, VariablePattern

    offs, nbytes = _token_layout(cls)
    fargs = list(cls.syntax.formal_arguments)
    names = [f._name for f in fargs]
    pats = []
    opaque = False
    try:
        plist = cls.dict_to_patterns(cls.patterns)
    except Exception:
        plist, opaque = [], True
    for p in plist:
        pos = _probe_field(cls, p.field, offs)
        if pos is None:
            opaque = True
            continue
        if isinstance(p, FixedPattern):
            if not isinstance(p.value, int):
                opaque = True
                continue
            pats.append({"fix": True, "pos": pos, "val": ibits(p.value), "op": 0, "tr": "none"})
        elif isinstance(p, VariablePattern):
            src = p.prop.source if hasattr(p.prop, "source") else None
            name = getattr(src, "_name", None)
            tr = "none"
            if isinstance(p.prop, Transform):
                tr = "inv" if type(p.prop).backwards is not Transform.backwards else "noinv"
            pats.append({"fix": False, "pos": pos, "val": [], "op": names.index(name) + 1 if name in names else 0,
                         "tr": tr})
        else:
            opaque = True
    custom = any(getattr(cls, m) is not getattr(base, m) for m, base in (
        ("encode", Instruction), ("set_user_patterns", Constructor), ("get_tokens", Instruction),
        ("set_all_patterns", Instruction)))
    precode = any(t.Info.precode for t in cls.tokens)
    ops = []
    for f in fargs:
        kind = _operand_kind(f)
        nums = []
        if kind == "reg":
            try:
                nums = sorted({int(r.num) for r in f._cls.all_registers()})
            except Exception:
                kind = "other"
        ops.append({"kind": kind, "nums": nums})
    return {"name": cls.__name__, "len": nbytes, "pats": pats, "ops": ops,
            "custom": bool(custom or precode), "opaque": opaque,
            "flat": all(o["kind"] in ("reg", "int") for o in ops)}


# ---------------------------------------------------------------- observation
def _quiet(fn):
    buf = io.StringIO()
    logging.disable(logging.CRITICAL)
    try:
        with contextlib.redirect_stdout(buf), contextlib.redirect_stderr(buf):
            return fn()
    finally:
        logging.disable(logging.NOTSET)


def operand_values(ins):
    """the operands of an instruction object as the table sees them: register number / integer as bits;
    anything else by its printed form"""
    from ppci.arch.registers import Register

    out = []
    for f in ins.syntax.formal_arguments:
        v = getattr(ins, f._name)
        if isinstance(v, Register):
            out.append({"k": "reg", "v": ibits(int(v.num)), "s": str(v)})
        elif isinstance(v, int) and not isinstance(v, bool):
            out.append({"k": "int", "v": ibits(v), "s": str(v)})
        else:
            out.append({"k": "other", "v": [], "s": str(v)[:60]})
    return out


def field_values(ins):
    """what the variable patterns of the class put into their fields for this object (pattern.get_value:
    the operand's number after the pattern's transform), in table order; [] entries for fixed patterns"""
    from ppci.arch.encoding import VariablePattern

    out = []
    for p in type(ins).dict_to_patterns(type(ins).patterns):
        if isinstance(p, VariablePattern):
            out.append(ibits(int(p.get_value(ins))))
        else:
            out.append([])
    return out


def observe_decode(cls, data):
    """Instruction.decode of `cls` on `data`: outcome class + what the decoded object prints / re-encodes to"""
    def run():
        return cls.decode(bytes(data))

    try:
        j = _quiet(run)
    except Exception as e:  # the outcome class is the observation
        kind = "refused" if isinstance(e, ValueError) else "crashed"
        return {"out": kind, "exc": type(e).__name__, "text": "", "bytes": [], "ops": [], "fv": []}
    rec = {"out": "decoded", "exc": "", "text": "", "bytes": [], "ops": [], "fv": []}
    try:
        rec["text"] = str(j)
        rec["bytes"] = list(j.encode())
        rec["ops"] = operand_values(j)
        rec["fv"] = field_values(j)
    except Exception as e:
        rec["out"] = "unusable"
        rec["exc"] = type(e).__name__
    return rec


def candidate_outcomes(classes, data, own):
    """for every other class of the instruction set with an encoding of len(data) bytes: what its decode
    says about `data` ([class index, outcome, re-encoded bytes])"""
    out = []
    for k, (cls, row) in enumerate(classes, 1):
        if k == own or row["len"] != len(data):
            continue
        o = observe_decode(cls, data)
        out.append({"c": k, "out": o["out"], "exc": o["exc"], "bytes": o["bytes"], "text": o["text"]})
    return out


def prefix_outcomes(classes, data, sizes):
    """the trial disassembler the Disassembler class sketches: every class of the set tried on every prefix of
    `data` whose length is an encoding size of the set: [size, class index, outcome, re-encoded bytes]"""
    out = []
    for n in sizes:
        if n > len(data):
            continue
        piece = data[:n]
        for k, (cls, row) in enumerate(classes, 1):
            if row["len"] != n:
                continue
            o = observe_decode(cls, piece)
            if o["out"] != "refused":
                out.append({"n": n, "c": k, "out": o["out"], "bytes": o["bytes"]})
    return out


class _Sink:
    """an output stream that keeps what the Disassembler emits"""

    def __init__(self):
        self.items = []

    def emit(self, ins):
        try:
            self.items.append({"text": str(ins), "bytes": list(ins.encode())})
        except Exception as e:
            self.items.append({"text": "<%s>" % type(e).__name__, "bytes": []})

    def emit_all(self, inss):
        for i in inss:
            self.emit(i)


def observe_disassembler(arch, data):
    """ppci.binutils.disasm.Disassembler(arch).disasm(data, stream): the pieces it emits"""
    from ppci.binutils.disasm import Disassembler

    sink = _Sink()
    try:
        _quiet(lambda: Disassembler(arch).disasm(bytes(data), sink))
    except Exception as e:
        return {"ok": False, "exc": type(e).__name__, "items": sink.items}
    return {"ok": True, "exc": "", "items": sink.items}


# ---------------------------------------------------------------- instances
def class_table(arch):
    """[(class, row)] of every instruction class with a syntax and an encoding (order of the ISA)"""
    out = []
    for c in asmgen2.classes_of(arch):
        try:
            out.append((c, project_class(c)))
        except Exception:
            continue
    return out


def instances(cls, pools, rng, limit):
    """up to `limit` distinct instruction objects of the class (base tuple, each operand varied alone through
    its pool, then random tuples); a tuple the class's own constructor / printer / encoder rejects is not an
    instance"""
    fargs = cls.syntax.formal_arguments
    plist = [pools.values(f._cls) for f in fargs]
    if any(not p for p in plist):
        return []
    out = []
    seen = set()

    def attempt(args):
        try:
            ins = cls(*[asmgen2.clone(a) for a in args])
            text = str(ins)
            data = bytes(ins.encode())
        except Exception:
            return False
        if not text or "\n" in text or "object at 0x" in text:
            return False
        if text not in seen:
            seen.add(text)
            out.append((ins, text, data))
        return True

    if not fargs:
        attempt([])
        return out
    base = None
    for _ in range(80):
        args = [rng.choice(p) for p in plist]
        if attempt(args):
            base = args
            break
    if base is None:
        return out
    per = max(2, limit // max(1, len(fargs)))
    for k in range(len(fargs)):
        pool = list(plist[k])
        if len(pool) > per:
            pool = rng.sample(pool, per)
        for v in pool:
            if len(out) >= limit:
                break
            a = list(base)
            a[k] = v
            attempt(a)
    tries = 0
    while len(out) < limit and tries < 3 * limit:
        tries += 1
        attempt([rng.choice(p) for p in plist])
    return out[:limit]
