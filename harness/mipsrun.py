"""C05, mips part -- called from engines/c05.py (`c05_hook`).

B: Mips_Run.tla + IR.tla.  IR modules restricted to types of at most 32 bits (the corpus of the riscv part: directed
   elementary operations, constants, shifts, casts, narrow compares, memory, calls; harness/irpatterns.py; harness/irgen.py;
   C programs) are compiled with api.optimize + api.ir_to_object for march 'mips' at levels 0/1/2/s, linked by ppci's own linker
   (code at 0x1000, data at 0x8000, ppci's mips runtime library when the object refers to it, external functions as assembled
   stubs), executed by TLC under tla/MipsExec.tla (image loader + call wrapper + observation: tla/Mips_Run.tla, delay slots
   included); the observation is handed to tla/IR.tla as the case's `obs` record and ObsMatchesImpl decides.
M: MipsExec_MC.tla (laws of the execution model) and Mips_Run on hand-written images with known results (AsExpected).

Nothing here judges: images are copies of the linked sections, the call record is the calling convention MipsArch declares
(arguments a0..a3 = r4..r7, result v0 = r2, no callee-saved registers besides sp), observations come out of TLC and go back
into TLC.  The violation key carries the constructs of the IR module handed to the back-end ("{cjmp+global}"), determined from
the IR alone, so that known findings can be listed per construct."""
import os
import random

from . import core, native, project_ir
from . import rvlink as rl
from .tlc import MachineryError

MARCH = "mips"
TYPES = ["i8", "u8", "i16", "u16", "i32", "u32"]
FUEL = 2500
ARG_REGS = (4, 5, 6, 7)
STUB_VALUE = 9
WORKERS = 8
IR_CFG = """INIT Init
NEXT Next
CHECK_DEADLOCK FALSE
INVARIANT ObsMatchesImpl
INVARIANT TypeOK
"""
# memory map of the mips images: code 0x1000.., data 0x18000.. (an address whose lower half is 0x8000), stack below SP
DATA_AT = 0x18000
SP = 0x3F000
RA = 0x3FFF0
LAYOUT = ("MEMORY flash LOCATION=0x1000 SIZE=0x10000 { SECTION(code) }\n"
          "MEMORY ram LOCATION=0x%x SIZE=0x20000 { SECTION(data) }\n" % DATA_AT)


def overlap(img):
    spans = sorted((g["addr"], g["addr"] + len(g["bytes"])) for g in img["segs"])
    return any(a[1] > b[0] for a, b in zip(spans, spans[1:])) or any(e > SP - 0x1000 for _, e in spans)


MC_LAWS = ["LawDelaySlot", "LawLoadExtension", "LawHiLo", "LawWritesOnly", "LawReadsOnly", "LawLink", "LawOverflow"]


def c05_hook(ctx, thorough, part, only):
    """called from engines/c05.py: part = "" (all parts) | "mips" | another part's name; only = program key of a replay"""
    if part not in ("", "mips"):
        return False
    c05_part(ctx, thorough, only if ctx.only is not None else None)
    return part == "mips"


# ---------------------------------------------------------------------------------------------------
def model_check(ctx, thorough):
    cfg = "CONSTANT Deep = %s\nINIT Init\nNEXT Next\nCHECK_DEADLOCK FALSE\n" % ("TRUE" if thorough else "FALSE")
    cfg += "".join("INVARIANT %s\n" % x for x in MC_LAWS)
    res = ctx.tlc("MipsExec_MC", cfg, label="M: laws of MipsExec.tla", workers=WORKERS, coverage=False)
    for e in res.errors:
        raise MachineryError("a law of MipsExec.tla fails in the specification itself: %s\n%s" % (e, e.text[:2000]))
    from . import tlcclean
    tlcclean.clean(res, "MipsExec_MC")


def probe_unsupported(ctx):
    """elementary operations the mips selector rejects (C29's findings); they are rewritten in the corpus"""
    from engines.c05 import BINOPS
    from ppci import api, ir
    from ppci.binutils.debuginfo import DebugDb

    bad = set()
    arch = rl.arch_of(MARCH)
    for t in TYPES:
        T = getattr(ir, t)
        for kind, ops in (("binop", BINOPS), ("unop", ["-", "~"])):
            for op in ops:
                m = ir.Module("probe", debug_db=DebugDb())
                f = ir.Function("f", ir.Binding.GLOBAL, T)
                m.add_function(f)
                e = ir.Block("f_entry")
                f.add_block(e)
                f.entry = e
                a = ir.Parameter("a", T)
                f.add_parameter(a)
                if kind == "binop":
                    b = ir.Parameter("b", T)
                    f.add_parameter(b)
                    v = ir.Binop(a, op, b, "v", T)
                else:
                    v = ir.Unop(op, a, "v", T)
                e.add_instruction(v)
                e.add_instruction(ir.Return(v))
                try:
                    api.ir_to_object([m], arch)
                except Exception:
                    bad.add((kind, op, t))
    ctx.cov["mips_unselectable_elementary_ops"] = len(bad)
    return bad


def tags(pm):
    """The constructs of the module handed to the back-end (part of the violation key; read off the IR, not from the oracle):
      cjmp     a conditional jump             jmp     an unconditional jump
      global   the address of a global variable / function is taken (AddressOf, direct loads / stores of globals)
      call     a function / procedure call    muldiv  * / % (runtime library calls on mips)
      narrow   an 8 / 16-bit value is computed, compared or converted
      alloc    a stack slot                   bigconst  an integer constant outside -32768..32767
      shift    << or >>                       memory  a load or store
      add      i32 +     sub   i32 / u32 -     sshr   i32 >>"""
    t = set()
    for f in pm["funcs"]:
        for b in f["blocks"]:
            for i in b["ins"]:
                k = i["k"]
                if k == "cjmp":
                    t.add("cjmp")
                    if i.get("aty") in ("i8", "u8", "i16", "u16"):
                        t.add("narrow")
                elif k == "jmp":
                    t.add("jmp")
                elif k in ("addrof",):
                    t.add("global")
                elif k in ("call", "pcall"):
                    t.add("call")
                elif k == "alloc":
                    t.add("alloc")
                elif k in ("load", "store", "copyblob"):
                    t.add("memory")
                elif k == "literal":
                    t.add("global")
                elif k == "binop":
                    if i["op"] in ("*", "/", "%"):
                        t.add("muldiv")
                    if i["op"] in ("<<", ">>", "rol", "ror"):
                        t.add("shift")
                    if i["op"] == ">>" and i["ty"] == "i32":
                        t.add("sshr")
                    if i["op"] == "+" and i["ty"] == "i32":
                        t.add("add")
                    if i["op"] == "-" and i["ty"] in ("i32", "u32"):
                        t.add("sub")
                    if i["ty"] in ("i8", "u8", "i16", "u16"):
                        t.add("narrow")
                elif k == "unop" and i["ty"] in ("i8", "u8", "i16", "u16"):
                    t.add("narrow")
                elif k == "cast" and (i["ty"] in ("i8", "u8", "i16", "u16") or i.get("aty") in ("i8", "u8", "i16", "u16")):
                    t.add("narrow")
                elif k == "const" and isinstance(i.get("v"), list):
                    v = int.from_bytes(bytes(i["v"]), "little", signed=i["ty"].startswith("i"))
                    if not -32768 <= v <= 32767:
                        t.add("bigconst")
    if any(g["k"] == "var" for g in pm["globals"]):
        t.add("global")
    return "{%s}" % "+".join(sorted(t)) if t else "{}"


def stub_object(pm):
    """external functions as stubs: return STUB_VALUE in v0 (procedures: return); jr ra with a nop in its delay slot"""
    names = [g for g in pm["globals"] if g["k"] == "xfn"]
    if not names:
        return None
    from ppci.arch.mips import instructions as MI, registers as MR
    script = ["section code"]
    for g in names:
        script += ["global %s" % g["name"], "%s:" % g["name"]]
        if g["ret"]:
            script.append(lambda: MI.Addi(MR.v0, MR.r0, STUB_VALUE))
        script += [lambda: MI.Jr(MR.lr), lambda: MI.Add(MR.r0, MR.r0, MR.r0)]
    return rl.build_object(MARCH, script)


_RUNTIME = {}


def runtime_object(ctx):
    if "obj" not in _RUNTIME:
        try:
            _RUNTIME["obj"] = native.limited(lambda: rl.arch_of(MARCH).get_runtime(), native.COMPILE_LIMIT_S, "mips runtime")
        except Exception as e:
            ctx.cov["mips_runtime_library_failed"] = type(e).__name__
            _RUNTIME["obj"] = None
    return _RUNTIME["obj"]


def needs_runtime(obj):
    defined = {s.name for s in obj.symbols if s.value is not None}
    return any(s.name.startswith("runtime_") and s.name not in defined for s in obj.symbols)


def call_record(ptys, values):
    regs = []
    free = list(ARG_REGS)
    for t, v in zip(ptys, values):
        bits = int(t[1:])
        v &= (1 << bits) - 1
        if t[0] == "i" and v >> (bits - 1):
            v -= 1 << bits
        regs.append([free.pop(0), rl.limbs(v, 4)])
    return {"regs": regs, "stk": []}


def run_images(ctx, cases, label, emit=True, invariants=("TypeOK",), workers=WORKERS):
    slim = [{k: c[k] for k in ("id", "imgs", "calls", "sp", "ra", "keep", "fuel", "expect") if k in c} for c in cases]
    path = ctx.trace_file(slim)
    res = ctx.tlc("Mips_Run", rl.run_cfg(emit, invariants, nchunks=max(1, min(64, len(cases)))), label=label,
                  env={"TRACE_FILE": path}, continue_=True, workers=workers, heap="8g", coverage=False, timeout=3000)
    os.unlink(path)
    return res, (rl.parse_obs(res.raw) if emit else {})


def prepare(ctx, programs):
    from engines.c05 import LEVELS
    from engines.c05rv import module_types
    from ppci import api

    ready = []
    arch = rl.arch_of(MARCH)
    for p in programs:
        try:
            pm = project_ir.project_module(p["make"](), 4)
        except Exception:
            ctx.cov["mips_build_failed"] = ctx.cov.get("mips_build_failed", 0) + 1
            continue
        if not module_types(pm) <= set(TYPES) | {"ptr"}:
            ctx.cov["mips_skipped_types"] = ctx.cov.get("mips_skipped_types", 0) + 1
            continue
        f = [x for x in pm["funcs"] if x["name"] == p["fn"]]
        if not f or not f[0]["ret"] or any(q["ty"] not in TYPES for q in f[0]["params"]) or any(g["k"] == "xvar" for g in pm["globals"]):
            ctx.cov["mips_skipped_signature"] = ctx.cov.get("mips_skipped_signature", 0) + 1
            continue
        ptys = [q["ty"] for q in f[0]["params"]]
        if len(ptys) > len(ARG_REGS):
            # MipsArch.determine_arg_locations has four argument registers and no memory arguments (IndexError): C29's business
            ctx.cov["mips_skipped_more_than_4_arguments"] = ctx.cov.get("mips_skipped_more_than_4_arguments", 0) + 1
            continue
        vecs = [v for v in p["vecs"] if len(v) == len(ptys)]
        if not vecs:
            continue
        globs = [(g["name"], g["size"]) for g in pm["globals"] if g["k"] == "var"]
        images, variants = {}, []
        for lv in LEVELS:
            label = "mips-O%s" % lv
            try:
                def work(lv=lv):
                    m = p["make"]()
                    if lv != "0":
                        api.optimize(m, level=lv)
                    try:
                        tg = tags(project_ir.project_module(m, 4))
                    except Exception:
                        tg = "{}"
                    return api.ir_to_object([m], arch), tg

                obj, tg = native.limited(work, native.COMPILE_LIMIT_S, "mips codegen")
            except Exception as e:          # the back-end (or the optimiser) raised: C29 / C28's business, counted
                k = "mips_skipped_codegen_" + type(e).__name__
                ctx.cov[k] = ctx.cov.get(k, 0) + 1
                continue
            try:
                objs = [obj]
                stub = stub_object(pm)
                if stub is not None:
                    objs.append(stub)
                if needs_runtime(obj):
                    rt = runtime_object(ctx)
                    if rt is not None:
                        objs.append(rt)
                linked = rl.link_objects(objs, LAYOUT)
                img = rl.image_of(linked, p["fn"], globs)
            except Exception as e:
                variants.append((label, None, "error:link:" + type(e).__name__, tg))
                continue
            if img is None or overlap(img):
                variants.append((label, None, "error:image", tg))
                continue
            h = native.digest(repr((img["segs"], img["entry"])).encode())
            images.setdefault(h, img)
            variants.append((label, h, None, tg))
        if not variants:
            continue
        ready.append({"p": p, "pm": pm, "ptys": ptys, "ret": f[0]["ret"], "vecs": vecs, "globs": globs, "images": images,
                      "variants": variants})
    return ready


def micro(ctx):
    """M: Mips_Run on hand-written images whose results are known (loader, call wrapper, delay slots, observation)"""
    from ppci.arch.mips import instructions as I, registers as R
    L = rl.limbs
    t0 = R.r8
    nop = lambda: I.Add(R.r0, R.r0, R.r0)
    cases = []
    # v0 = a0 + a1 + g; g = v0; the instruction in the delay slot of jr (addiu v0, v0, 1) is executed before the return
    src = ["global main", "global g", "section code", "main:",
           lambda: I.Addu(R.v0, R.a0, R.a1), lambda: I.Lui(t0, DATA_AT >> 16), lambda: I.Ori(t0, t0, DATA_AT & 0xFFFF),
           lambda: I.Lw(R.r9, 0, t0), lambda: I.Addu(R.v0, R.v0, R.r9), lambda: I.Sw(R.v0, 0, t0),
           lambda: I.Jr(R.lr), lambda: I.Addiu(R.v0, R.v0, 1),
           "section data", "g:", "dd 0x11223344"]
    obj = rl.build_object(MARCH, src)
    img = rl.image_of(rl.link_objects([obj], LAYOUT), "main", [("g", 4)])
    calls = [{"regs": [[4, L(5)], [5, L(7)]], "stk": []}, {"regs": [[4, L(-1)], [5, L(2)]], "stk": []}]
    cases.append({"id": "micro-mips", "imgs": [img], "calls": calls, "sp": SP, "ra": RA, "keep": [], "fuel": 50,
                  "expect": {"status": "ok", "a0": [L(0x11223344 + 13), L(0x11223346)],
                             "globals": [[{"name": "g", "bytes": L(0x11223344 + 12)}], [{"name": "g", "bytes": L(0x11223345)}]]}})
    # jal links to pc + 8 and runs its delay slot first: main: jal h ; addiu a0, a0, 1 ; jr saved ; nop   h: jr ra ; addu v0, a0, a0
    src = ["global main", "section code", "main:", lambda: I.Addu(R.r9, R.lr, R.r0), lambda: I.Jal("h"),
           lambda: I.Addiu(R.a0, R.a0, 1), lambda: I.Jr(R.r9), nop, "h:", lambda: I.Jr(R.lr), lambda: I.Addu(R.v0, R.a0, R.a0)]
    obj = rl.build_object(MARCH, src)
    img = rl.image_of(rl.link_objects([obj], "MEMORY flash LOCATION=0x1000 SIZE=0x100 { SECTION(code) }\n"), "main", [])
    cases.append({"id": "micro-jal", "imgs": [img], "calls": [{"regs": [[4, L(20)]], "stk": []}], "sp": SP, "ra": RA, "keep": [],
                  "fuel": 50, "expect": {"status": "ok", "a0": [L(42)], "globals": [[]]}})
    for name, body, st in (("loop", ["main:", lambda: I.J("main"), nop], "fuel"),
                           ("wild", ["main:", lambda: I.Jr(R.r0), nop], "fault"),
                           ("ovf", ["main:", lambda: I.Lui(t0, 0x7FFF), lambda: I.Add(R.v0, t0, t0), lambda: I.Jr(R.lr), nop], "trap"),
                           ("nodelay", ["main:", lambda: I.Jr(R.lr)], "fault"),
                           ("resv", ["main:", "dd 0xFFFFFFFF"], "outofmodel")):
        obj = rl.build_object(MARCH, ["global main", "section code"] + body)
        img = rl.image_of(rl.link_objects([obj], "MEMORY flash LOCATION=0x1000 SIZE=0x100 { SECTION(code) }\n"), "main", [])
        cases.append({"id": "micro-" + name, "imgs": [img], "calls": [{"regs": [], "stk": []}], "sp": SP, "ra": RA, "keep": [],
                      "fuel": 40, "expect": {"status": st, "a0": [[]], "globals": [[]]}})
    res, _ = run_images(ctx, cases, "M: Mips_Run on hand-written images", emit=False,
                        invariants=("AsExpected", "ConventionKept", "TypeOK"), workers=2)
    for e in res.errors:
        raise MachineryError("Mips_Run self-check fails: %s %s" % (e, e.text[:1500]))
    ctx.cov["mips_micro_images"] = len(cases)


EDGE_CONSTS = [0x7FFF, 0x8000, 0x8001, 0xFFFF, 0x10000, 0x18000, 0xFFFF0000, 0xFFFF7FFF, 0xFFFF8000, -0x8000, -0x8001, -1,
               -0x80000000, 0x7FFFFFFF, 40000]


def edge_const_programs(bad, nvec):
    """directed: constants on both sides of every 16-bit edge (the halves lui / ori / addiu carry) as returned constants, as
    operands of + & | ^, as store values and as offsets from a global's address"""
    from engines.c02 import int_vectors
    from harness.irpatterns import B

    out = []

    def norm(c, t):
        c &= 0xFFFFFFFF
        return c - (1 << 32) if t == "i32" and c >> 31 else c

    def name(c):
        return ("m%x" % -c) if c < 0 else "%x" % c

    def add(key, make, ptys, src):
        out.append({"key": key, "make": make, "fn": "f", "vecs": [[0] * len(ptys), [1] * len(ptys)] + int_vectors(ptys, random.Random(key), nvec)[:1],
                    "ext": [], "src": "harness/mipsrun.py edge_const_programs: " + src})

    for c0 in EDGE_CONSTS:
        for t in ("i32", "u32"):
            c = norm(c0, t)

            def mk_ret(c=c, t=t):
                b = B("f", t, [t])
                b.ret(b.c(c, t))
                return b.m

            add("mipsconst.ret.%s.%s" % (t, name(c0)), mk_ret, [t], "return %#x as %s" % (c0 & 0xFFFFFFFF, t))
            for op, opn in (("+", "add"), ("&", "and"), ("|", "or"), ("^", "xor")):
                if ("binop", op, t) in bad:
                    continue

                def mk_op(c=c, t=t, op=op):
                    b = B("f", t, [t])
                    b.ret(b.bin(b.p[0], op, b.c(c, t), t))
                    return b.m

                add("mipsconst.%s.%s.%s" % (opn, t, name(c0)), mk_op, [t], "x %s %#x on %s" % (op, c0 & 0xFFFFFFFF, t))

        def mk_store(c=norm(c0, "u32")):
            from ppci import ir
            b = B("f", "u32", ["u32"])
            p0 = b.glob("g", 8, bytes(8))
            b.store(b.c(c, "u32"), b.off(p0, 4))
            b.ret(b.bin(b.load(b.off(p0, 4), "u32"), "^", b.p[0], "u32"))
            return b.m

        add("mipsconst.store.%s" % name(c0), mk_store, ["u32"], "g[1] = %#x; return g[1] ^ x" % (c0 & 0xFFFFFFFF))
    # offsets from a global's address on both sides of the 16-bit edges of the displacement field
    for off in (0x7FFC, 0x8000, 0x8004, 0xFFFC, 0x10000):
        def mk_off(off=off):
            from ppci import ir
            b = B("f", "u32", ["u32"])
            p0 = b.glob("g", off + 8, bytes(off + 8))
            b.store(b.p[0], b.off(p0, off))
            b.ret(b.bin(b.load(b.off(p0, off), "u32"), "+", b.c(1, "u32"), "u32"))
            return b.m

        add("mipsconst.goff.%x" % off, mk_off, ["u32"], "*(g + %#x) = x; return *(g + %#x) + 1" % (off, off))
    return out


def programs_for(ctx, bad, thorough):
    from engines.c05rv import rv_programs
    progs = rv_programs(ctx, bad, thorough)
    for p in progs:
        p["src"] = p["src"].replace("rv_programs", "rv_programs (corpus shared with the riscv part)")
    return edge_const_programs(bad, 4 if thorough else 3) + progs


def c05_part(ctx, thorough, only=None):
    from engines.c05 import LEVELS
    ctx.assume("tla/MipsExec.tla is the meaning of MIPS32 machine code incl. branch delay slots (C08 validates ppci's encodings "
               "against tla/Mips.tla, MipsExec_MC the laws of the execution model); add / addi / sub trap on signed overflow, "
               "misaligned lh / lw / sh / sw raise an address error; the calling convention is the one ppci's MipsArch declares "
               "(arguments a0..a3, result v0, no callee-saved registers besides sp); the image is little-endian")
    ctx.cov["rule_mips"] = (
        "the riscv part's corpus of IR modules over i8..u32 (directed elementary operations / constants / shifts / casts / narrow "
        "compares / memory / calls, harness/irpatterns.py, harness/irgen.py, C programs), operations the mips selector rejects "
        "rewritten, compiled for 'mips' at levels 0/1/2/s, linked by ppci's linker (+ stubs, + ppci's mips runtime library), executed "
        "by TLC under MipsExec.tla on 3-6 argument vectors; IR.tla compares return word and final bytes of every global. distinct = "
        "(program, vector, level) whose IR execution is defined; levels with byte-identical images share one execution")
    if only is None:
        model_check(ctx, thorough)
        micro(ctx)
    bad = probe_unsupported(ctx)
    programs = programs_for(ctx, bad, thorough)
    if only is not None:
        programs = [p for p in programs if p["key"] == only]
    ctx.cov["mips_programs_generated"] = len(programs)
    ready = prepare(ctx, programs)
    ctx.cov["mips_programs_compiled"] = len(ready)
    # ---- run 1: the machine side
    cases, meta = [], []
    for r in ready:
        for h, img in r["images"].items():
            cases.append({"id": r["p"]["key"], "imgs": [img], "sp": SP, "ra": RA, "keep": [], "fuel": FUEL,
                          "calls": [call_record(r["ptys"], v) for v in r["vecs"]]})
            meta.append((r, h))
    ctx.cov["mips_distinct_images_executed"] = len(cases)
    observed = {}
    steps = []
    for b0 in range(0, len(cases), 2500):
        res, obs = run_images(ctx, cases[b0:b0 + 2500], "MipsExec.tla executes the linked images (%d)" % (b0 // 2500), emit=True)
        for e in res.errors:
            raise MachineryError("unexpected TLC error in the Mips_Run run: %s\n%s" % (e, e.text[:1500]))
        for (ci, av, im), (o, n) in obs.items():
            r, h = meta[b0 + ci - 1]
            observed[(id(r), h, av)] = (o, n)
            steps.append(n)
    if steps:
        ctx.cov["mips_machine_instructions_executed"] = sum(steps)
        ctx.cov["mips_max_instructions_per_call"] = max(steps)
    # ---- run 2: the IR side judges.  One IR.tla case per (program, vector, distinct observation)
    TYB = {t: int(t[1:]) // 8 for t in TYPES}
    ir_cases, ir_meta = [], []
    skipped = {}
    for r in ready:
        for vi, vec in enumerate(r["vecs"]):
            groups = {}
            for label, h, err, tg in r["variants"]:
                if err is not None:
                    ob = {"outcome": err, "ret": [], "globals": [], "hascalls": False, "calls": []}
                else:
                    got = observed.get((id(r), h, vi + 1))
                    if got is None:
                        raise MachineryError("no observation for %s %s vector %d" % (r["p"]["key"], label, vi + 1))
                    o, n = got
                    st = o["status"]
                    if st in ("fuel", "outofmodel"):
                        # outofmodel: an instruction MipsExec.tla does not execute (reserved encoding, division by zero, ...)
                        skipped[st] = skipped.get(st, 0) + 1
                        skipped.setdefault(st + "_programs", set()).add(r["p"]["key"] + ":" + label)
                        continue
                    if st == "ok" and not o["kept"]:
                        st = "stack-pointer-not-restored"
                    ob = {"outcome": "ok" if st == "ok" else "error:" + st,
                          "ret": list(o["a0"][:TYB[r["ret"]]]) if st == "ok" else [],
                          "globals": [{"name": g["name"], "bytes": list(g["bytes"])} for g in o["globals"]] if st == "ok" else [],
                          "hascalls": False, "calls": []}
                groups.setdefault(repr(ob), (ob, []))[1].append((label, tg))
            for ob, labels in groups.values():
                ir_cases.append({"id": "%s@%d" % (r["p"]["key"], vi), "mods": [r["pm"]], "fn": r["p"]["fn"],
                                 "argv": [[project_ir.limbs(v, TYB[t]) for v, t in zip(vec, r["ptys"])]],
                                 "ext": r["p"]["ext"], "fuel": 3000, "obs": ob})
                ir_meta.append((r, vec, labels, ob))
                ctx.count(None, n=len(labels))
    ctx.cov["mips_skipped_machine_side"] = {k: (sorted(v)[:12] if isinstance(v, set) else v) for k, v in skipped.items()}
    for r, vec, labels, ob in ir_meta[:3]:
        ctx.sample({"program": r["p"]["key"], "args": vec, "variants": [l for l, _ in labels], "observed": ob["outcome"], "v0": ob["ret"]})
    judged = 0
    for b0 in range(0, len(ir_cases), 5000):
        part = ir_cases[b0:b0 + 5000]
        path = ctx.trace_file(part)
        res2 = ctx.tlc("IR", IR_CFG, label="IR.tla judges the mips observations (%d)" % (b0 // 5000), env={"TRACE_FILE": path},
                       continue_=True, workers=WORKERS, heap="8g")
        os.unlink(path)
        seen = set()
        for e in res2.errors:
            st = e.last
            i = st.get("i")
            if e.kind != "invariant" or e.name != "ObsMatchesImpl" or not isinstance(i, int) or not 1 <= i <= len(part):
                raise MachineryError("unexpected TLC error in the IR run: %s\n%s" % (e, e.text[:1500]))
            r, vec, labels, ob = ir_meta[b0 + i - 1]
            for lab, tg in labels:
                key = "C05:mips:%s%s:%s" % (tg, r["p"]["key"], lab)
                if key in seen:
                    continue
                seen.add(key)
                ctx.violation(key, "%s(%s) [%s]: the linked image executed by MipsExec.tla ends %s with v0=%s globals=%s; the IR prescribes ret=%s" % (
                    r["p"]["fn"], ", ".join(map(str, vec)), lab, ob["outcome"], ob["ret"],
                    {g["name"]: bytes(g["bytes"]).hex() for g in ob["globals"]}, st.get("ret")),
                    {"program": r["p"]["key"], "part": "mips", "source": r["p"]["src"][:6000], "args": vec, "variant": lab,
                     "observed": ob, "ir_state": {x: st.get(x) for x in ("status", "ret")}})
        judged += len(part)
    ctx.cov["traces_validated_against_impl"] += judged
    ctx.cov["distinct_nontrivial"] += sum(len(m[2]) for m in ir_meta)
