"""C08 (and for mips C07) for get_arch('microblaze').isa: front end of harness/riscgen.py (tla/MicroBlaze.tla)."""
from . import riscgen


def c08_part(ctx, thorough):
    """True only when ctx.only is a replay of one of this part's cases (key C08:microblaze:...)."""
    return riscgen.c08_part(ctx, thorough, "microblaze")
