"""ARM part of C05 (march 'arm' and 'arm' with option 'thumb'): IR modules are compiled by ppci, linked by ppci's linker,
the image is executed by TLC under tla/ArmExec.tla (driver tla/Arm_Run.tla) and the observation is judged by tla/IR.tla
(ObsMatchesImpl), exactly as engines/c05rv.py does for riscv with tla/RV32.tla.

M: Arm_MC.tla      laws of ArmExec itself (flags against integer arithmetic, shifter, condition table, ldm/stm inverse,
                   Step writes only Writes(d) and depends only on Reads(d))
M: Arm_Run         loader / call wrapper / observation on hand-written images with known results (AsExpected)
B: Arm_Run + IR    the corpus of c05rv (directed elementary operations, constants, shifts, casts, narrow compares / memory /
                   calls, argument lists longer than the register file, irpatterns, irgen, C programs) plus ARM-specific
                   directed modules (constants around the modified-immediate and literal-pool cases, signed / unsigned
                   comparisons of every width and direction, frame-relative accesses, function pointers)

Nothing here judges: images are the bytes of the linked sections, the call record is ppci's ARM convention stated as data,
observations come out of TLC and go back into TLC."""
import os
import random

from . import core, native, project_ir, rvlink
from .tlc import MachineryError

MARCHS = (("arm", "arm"), ("thumb", "arm:thumb"))       # (isa of the machine, ppci march)
TYPES = ["i8", "u8", "i16", "u16", "i32", "u32"]
FUEL = 6000
WORKERS = 8
STUB_VALUE = 9
SP = 0xF000
RA = 0xFFF0
LAYOUT = rvlink.LAYOUT_SPLIT
# ppci's ARM convention (ArmArch.determine_arg_locations / determine_rv_location / callee_save / gen_prologue), as data:
# arguments in r1..r4, further ones in memory at sp + 8, sp + 12, ... (4 bytes each for integers up to 32 bits; narrower ones by
# their size); result in r0; callee-saved r5..r10 (+ the frame pointer r11) in ARM state, r5, r6 (+ r7) in Thumb state
ARG_REGS = (1, 2, 3, 4)
KEEP = {"arm": [5, 6, 7, 8, 9, 10, 11], "thumb": [5, 6, 7]}
IR_CFG = "INIT Init\nNEXT Next\nCHECK_DEADLOCK FALSE\nINVARIANT ObsMatchesImpl\nINVARIANT TypeOK\n"

limbs = rvlink.limbs


def call_record(ptys, values):
    regs, stk = [], []
    free = list(ARG_REGS)
    offset = 8
    for t, v in zip(ptys, values):
        bits = int(t[1:])
        v &= (1 << bits) - 1
        if t[0] == "i" and v >> (bits - 1):
            v -= 1 << bits
        if free:
            regs.append([free.pop(0), limbs(v, 4)])
        else:
            stk.append([offset, limbs(v, 4)])
            offset += bits // 8
    return {"regs": regs, "stk": stk}


def run_cfg(emit, invariants, nchunks=32, burst=24):
    out = ["CONSTANTS", " NChunks = %d" % nchunks, " Burst = %d" % burst, "ALIAS Shown", "INIT Init",
           "NEXT %s" % ("NextEmit" if emit else "Next"), "CHECK_DEADLOCK FALSE"]
    out += ["INVARIANT %s" % i for i in invariants]
    return "\n".join(out) + "\n"


def run_images(ctx, cases, label, emit=True, invariants=("TypeOK",), workers=WORKERS):
    slim = [{k: c[k] for k in ("id", "isa", "imgs", "calls", "sp", "ra", "keep", "fuel", "expect") if k in c} for c in cases]
    path = ctx.trace_file(slim)
    res = ctx.tlc("Arm_Run", run_cfg(emit, invariants, nchunks=max(1, min(64, len(cases)))), label=label,
                  env={"TRACE_FILE": path}, continue_=True, workers=workers, heap="8g", coverage=False, timeout=3000)
    os.unlink(path)
    return res, (rvlink.parse_obs(res.raw) if emit else {})


def runtime_object(march):
    """the compiler runtime ppci links ARM programs with (ArmArch.get_runtime: __sdiv for ARM state, nothing for Thumb)"""
    try:
        return rvlink.arch_of(march).get_runtime()
    except Exception:
        return None


# ---------------------------------------------------------------------------------------------------
# M: the driver on hand-written images
# ---------------------------------------------------------------------------------------------------
def micro(ctx):
    L = limbs
    cases = []
    src = {"arm": ["global main", "global g", "section code", "main:", "push {r4, lr}", "add r0, r1, r2", "ldr r3, main_lit", "ldr r4, [r3, #0]",
                   "add r0, r0, r4", "str r0, [r3, 0]", "ldr r4, [sp, #16]", "add r0, r0, r4", "cmp r1, 5", "beq main_l", "sub r0, r0, 1",
                   "main_l:", "pop {r4, pc}", "main_lit:", "dcd =g", "section data", "g:", "dd 0x11223344"],
           "thumb": ["global main", "global g", "section code", "main:", "push {r4, lr}", "add r0, r1, r2", "ldr r3, main_lit", "ldr r4, [r3, 0]",
                     "add r0, r0, r4", "str r0, [r3, 0]", "ldr r4, [sp, 16]", "add r0, r0, r4", "cmp r1, 5", "beq main_l", "sub r0, r0, 1",
                     "main_l:", "pop {r4, pc}", "align 4", "main_lit:", "dcd =g", "section data", "g:", "dd 0x11223344"]}
    for isa, march in MARCHS:
        obj = rvlink.build_object(march, src[isa])
        img = rvlink.image_of(rvlink.link_objects([obj], LAYOUT), "main", [("g", 4)])
        calls = [{"regs": [[1, L(5)], [2, L(7)]], "stk": [[8, L(100)]]}, {"regs": [[1, L(-1)], [2, L(2)]], "stk": [[8, L(0)]]}]
        cases.append({"id": "micro-" + isa, "isa": isa, "imgs": [img], "calls": calls, "sp": SP, "ra": RA, "keep": KEEP[isa], "fuel": 60,
                      "expect": {"status": "ok", "r0": [L(0x11223344 + 112), L(0x11223344)],
                                 "globals": [[{"name": "g", "bytes": L(0x11223344 + 12)}], [{"name": "g", "bytes": L(0x11223345)}]]}})
    for name, isa, march, body, st in (("loop", "arm", "arm", ["main:", "b main"], "fuel"),
                                       ("wild", "arm", "arm", ["main:", "mov r0, 64", "blx r0"], "fault"),
                                       ("trap", "thumb", "arm:thumb", ["main:", "bkpt 1"], "outofmodel"),
                                       ("state", "thumb", "arm:thumb", ["main:", "mov r0, 64", "blx r0"], "fault")):
        obj = rvlink.build_object(march, ["global main", "section code"] + body)
        img = rvlink.image_of(rvlink.link_objects([obj], "MEMORY flash LOCATION=0x1000 SIZE=0x100 { SECTION(code) }\n"), "main", [])
        cases.append({"id": "micro-" + name, "isa": isa, "imgs": [img], "calls": [{"regs": [], "stk": []}], "sp": SP, "ra": RA, "keep": [],
                      "fuel": 40, "expect": {"status": st, "r0": [[]], "globals": [[]]}})
    res, _ = run_images(ctx, cases, "M: Arm_Run on hand-written images", emit=False,
                        invariants=("AsExpected", "ConventionKept", "TypeOK"), workers=2)
    for e in res.errors:
        raise MachineryError("Arm_Run self-check fails: %s %s" % (e, e.text[:1500]))
    ctx.cov["arm_micro_images"] = len(cases)


# ---------------------------------------------------------------------------------------------------
# corpus
# ---------------------------------------------------------------------------------------------------
def probe_unsupported(ctx):
    """elementary operations the arm / thumb selectors reject (C29's findings); the union is rewritten"""
    from engines.c05 import BINOPS
    from ppci import api, ir
    from ppci.binutils.debuginfo import DebugDb

    bad = set()
    per = {}
    for isa, march in MARCHS:
        arch = rvlink.arch_of(march)
        for t in TYPES:
            T = getattr(ir, t)
            for kind, ops in (("binop", BINOPS), ("unop", ["-", "~"])):
                for op in ops:
                    m = ir.Module("probe", debug_db=DebugDb())
                    f = ir.Function("f", ir.Binding.GLOBAL, T)
                    m.add_function(f)
                    e = ir.Block("f_entry")
                    f.add_block(e)
                    f.entry = e
                    a = ir.Parameter("a", T)
                    f.add_parameter(a)
                    if kind == "binop":
                        b = ir.Parameter("b", T)
                        f.add_parameter(b)
                        v = ir.Binop(a, op, b, "v", T)
                    else:
                        v = ir.Unop(op, a, "v", T)
                    e.add_instruction(v)
                    e.add_instruction(ir.Return(v))
                    try:
                        api.ir_to_object([m], arch)
                    except Exception:
                        bad.add((kind, op, t))
                        per[isa] = per.get(isa, 0) + 1
    ctx.cov["arm_unselectable_elementary_ops"] = dict(per, union=len(bad))
    return bad


ARM_CONSTS = [-0x80000000, -0x12345, -0x10000, -4097, -4096, -257, -256, -255, -1, 0, 1, 255, 256, 257, 0x3FC, 0x3FD, 0xFF00, 0xFF01,
              0xFFFF, 0x10000, 0x12345, 0xFF000000, 0xF000000F, 0x7FFFFFFF, 0xFFFFFFFF, 1020, 1024, 4095, 4096]


def arm_directed(bad, nvec, thorough):
    """directed modules for what an ARM back-end has to get right beyond the shared corpus: signed / unsigned comparisons in
    every direction and width with operands on both sides of the sign boundary, constants at the edges of the modified
    immediate / 8-bit immediates / literal pool, frame-relative accesses at growing offsets, calls through a pointer"""
    from engines.c02 import int_vectors
    from engines.c05 import BITS
    from harness.irpatterns import B

    out = []

    def add(key, make, ptys, src, extra=()):
        prng = random.Random(key)
        vecs = [list(v) for v in extra] + int_vectors(ptys, prng, nvec)
        out.append({"key": key, "make": make, "fn": "f", "vecs": vecs, "ext": [], "src": "harness/armrun.py arm_directed: " + src})

    def edges(t):
        b = BITS[t]
        lo, hi = (-(1 << (b - 1)), (1 << (b - 1)) - 1) if t[0] == "i" else (0, (1 << b) - 1)
        return [lo, hi, -1 if lo < 0 else hi - 1, hi // 2 + 1]

    names = {"<": "lt", ">": "gt", "<=": "le", ">=": "ge", "==": "eq", "!=": "ne"}
    # comparisons: x cond y decides between two constants; vectors straddle the sign boundary in both orders
    for t in (TYPES if thorough else ("i32", "u32", "u8", "i16")):
        for cond in ("<", ">", "<=", ">=", "==", "!="):
            def make(t=t, cond=cond):
                b = B("f", "i32", [t, t])
                x, y = b.p
                yes, no = b.block("yes"), b.block("no")
                b.cj(x, cond, y, yes, no)
                b.at(yes).ret(b.c(1, "i32"))
                b.at(no).ret(b.c(2, "i32"))
                return b.m

            e = edges(t)
            add("acmp.%s.%s" % (t, names[cond]), make, [t, t], "x %s y on %s" % (cond, t),
                [[e[0], e[1]], [e[1], e[0]], [e[1], e[1]], [e[3], e[3] - 1], [e[3] - 1, e[3]], [1, e[1]], [e[1], 1], [0, e[2]], [e[2], 0]])
    # constants
    consts = ARM_CONSTS if thorough else [-0x80000000, -257, -1, 255, 256, 0x3FD, 0xFF01, 0xFF000000, 0xF000000F, 4096]
    for t in (("i32", "u32") if thorough else ("i32",)):
        for op in (("+", "-", "&", "|", "^") if thorough else ("+", "&", "-")):
            if ("binop", op, t) in bad:
                continue
            for side in ("xc", "cx"):
                for c in consts:
                    cv = c if t == "u32" or c < 0x80000000 else c - (1 << 32)
                    if t == "u32" and c < 0:
                        cv = c + (1 << 32)

                    def make(t=t, op=op, side=side, cv=cv):
                        b = B("f", t, [t])
                        k = b.c(cv, t)
                        b.ret(b.bin(b.p[0], op, k, t) if side == "xc" else b.bin(k, op, b.p[0], t))
                        return b.m

                    add("aconst.%s.%s.%s.%s" % (t, {"+": "add", "-": "sub", "&": "and", "|": "or", "^": "xor"}[op], side,
                                                ("m%x" % -c) if c < 0 else "%x" % c), make, [t],
                        "x %s %#x (%s) on %s" % (op, c, side, t), [[e] for e in edges(t)[:2]])
    # frame-relative: a local array of n words, written at the ends and in the middle through the frame pointer
    for n in ((2, 9, 40, 70, 300) if thorough else (2, 40, 300)):
        def make(n=n):
            from ppci import ir

            b = B("f", "i32", ["i32", "i32"])
            x, y = b.p
            a = b.e(ir.Alloc(b.nm("arr"), 4 * n, 4))
            p0 = b.e(ir.AddressOf(a, b.nm("ap")))
            b.store(x, p0)
            b.store(y, b.off(p0, 4 * (n - 1)))
            b.store(b.bin(x, "^", y, "i32"), b.off(p0, 4 * (n // 2)))
            r = b.bin(b.load(b.off(p0, 4 * (n - 1)), "i32"), "-", b.load(p0, "i32"), "i32")
            b.ret(b.bin(r, "+", b.load(b.off(p0, 4 * (n // 2)), "i32"), "i32"))
            return b.m

        add("aframe.%d" % n, make, ["i32", "i32"], "local array of %d words written and read through the frame" % n, [[7, 100], [-1, 1]])
    # a call through a pointer kept in a global, and a chain of internal calls with 4 register arguments
    def make_fp():
        from ppci import ir

        b = B("h", "i32", ["i32", "i32", "i32", "i32"])
        b.ret(b.bin(b.bin(b.p[0], "-", b.p[1], "i32"), "+", b.bin(b.p[2], "*", b.p[3], "i32"), "i32"))
        h = b.f
        b2 = B("f", "i32", ["i32", "i32"], module=b.m)
        x, y = b2.p
        r = b2.e(ir.FunctionCall(h, [x, y, b2.c(3, "i32"), y], b2.nm("call"), ir.i32))
        r2 = b2.e(ir.FunctionCall(h, [r, x, y, b2.c(5, "i32")], b2.nm("call"), ir.i32))
        b2.ret(b2.bin(r2, "^", r, "i32"))
        return b2.m

    # every argument register, with a result that tells the arguments apart
    for n, t in ((4, "i32"), (3, "u8"), (2, "i16")):
        def make(n=n, t=t):
            b = B("f", "i32", [t] * n)
            acc = b.c(1, "i32")
            for k, q in enumerate(b.p):
                acc = b.bin(b.bin(acc, "*", b.c(5, "i32"), "i32"), "-", b.bin(b.cast(q, "i32") if t != "i32" else q, "^", b.c(k, "i32"), "i32"), "i32")
            b.ret(acc)
            return b.m

        add("aregargs.%d.%s" % (n, t), make, [t] * n, "%d register arguments of type %s combined non-commutatively" % (n, t),
            [[k + 2 for k in range(n)]])
    # values live across calls: n values computed before, two calls of a callee that needs many registers / itself calls a
    # 4-argument function / takes k arguments (optionally through a chain of depth 2 - 3), every value observed afterwards
    def make_live(n, callee, depth):
        from ppci import ir

        b = B("k4", "i32", ["i32", "i32", "i32", "i32"])
        a0, a1, a2, a3 = b.p
        b.ret(b.bin(b.bin(b.bin(a0, "*", b.c(2, "i32"), "i32"), "-", a1, "i32"), "+", b.bin(b.bin(a2, "*", b.c(3, "i32"), "i32"), "^", a3, "i32"), "i32"))
        k4 = b.f
        mod = b.m
        if callee == "g4":          # calls a 4-argument function
            bg = B("g", "i32", ["i32"], module=mod)
            x = bg.p[0]
            r = bg.e(ir.FunctionCall(k4, [x, bg.bin(x, "+", bg.c(1, "i32"), "i32"), bg.bin(x, "^", bg.c(5, "i32"), "i32"), bg.c(7, "i32")],
                                     bg.nm("call"), ir.i32))
            bg.ret(bg.bin(r, "+", x, "i32"))
            g, nargs = bg.f, 1
        elif callee == "big":       # a leaf with seven values live at once
            bg = B("g", "i32", ["i32"], module=mod)
            x = bg.p[0]
            vs = [bg.bin(x, "+", bg.c(11 * (k + 1), "i32"), "i32") for k in range(7)]
            acc = bg.bin(vs[0], "*", vs[1], "i32")
            for k in range(2, 7):
                acc = bg.bin(bg.bin(acc, "-", vs[k], "i32"), "^", vs[k - 1], "i32")
            bg.ret(bg.bin(acc, "+", vs[0], "i32"))
            g, nargs = bg.f, 1
        else:                       # "k1" .. "k4": k arguments, the callee itself calls k4
            nargs = int(callee[1])
            bg = B("g", "i32", ["i32"] * nargs, module=mod)
            ps = list(bg.p) + [bg.c(3 + k, "i32") for k in range(4 - nargs)]
            r = bg.e(ir.FunctionCall(k4, ps, bg.nm("call"), ir.i32))
            bg.ret(bg.bin(r, "-", bg.p[0], "i32"))
            g = bg.f
        for d in range(depth - 1):  # a chain: m_d(x...) = g(x...) * 3 + x
            bm = B("m%d" % d, "i32", ["i32"] * nargs, module=mod)
            r = bm.e(ir.FunctionCall(g, list(bm.p), bm.nm("call"), ir.i32))
            bm.ret(bm.bin(bm.bin(r, "*", bm.c(3, "i32"), "i32"), "+", bm.p[0], "i32"))
            g = bm.f
        bf = B("f", "i32", ["i32", "i32"], module=mod)
        x, y = bf.p
        live = [bf.bin(bf.bin(x, "*", bf.c(2 * k + 3, "i32"), "i32"), "-", bf.bin(y, "^", bf.c(k + 1, "i32"), "i32"), "i32") for k in range(n)]
        r1 = bf.e(ir.FunctionCall(g, [x, y, x, y][:nargs], bf.nm("call"), ir.i32))
        r2 = bf.e(ir.FunctionCall(g, [y, x, y, x][:nargs], bf.nm("call"), ir.i32))
        acc = bf.bin(r1, "-", r2, "i32")
        for k, v in enumerate(live):
            acc = bf.bin(bf.bin(acc, "*", bf.c(5, "i32"), "i32"), "-" if k % 2 else "+", v, "i32")
        bf.ret(acc)
        return mod

    combos = [(n, c, d) for n in (1, 2, 3, 4, 5, 6) for c in ("g4", "big", "k1", "k2", "k3", "k4") for d in (1, 2, 3)] if thorough else \
        [(1, "g4", 1), (3, "g4", 1), (5, "g4", 2), (2, "big", 1), (4, "big", 1), (6, "big", 3), (1, "k1", 1), (3, "k2", 2), (2, "k3", 1), (4, "k4", 1)]
    for n, c, d in combos:
        add("alive.%d.%s.%d" % (n, c, d), lambda n=n, c=c, d=d: make_live(n, c, d), ["i32", "i32"],
            "%d values live across two calls of %s (chain depth %d), all observed afterwards" % (n, c, d), [[100, 7], [-5, 9]])
    add("acall4", make_fp, ["i32", "i32"], "h(h(x, y, 3, y), x, y, 5) ^ h(x, y, 3, y): four register arguments, live values across calls",
        [[100, 7], [-5, 9]])
    return out


def programs(ctx, bad, thorough):
    """the corpus of the riscv part (generated with the operations arm / thumb cannot select rewritten) + arm_directed"""
    from engines import c05rv

    progs = c05rv.rv_programs(ctx, bad, thorough)
    for p in progs:
        p["key"] = "a" + p["key"][2:] if p["key"].startswith("rv") else p["key"]
    nvec = 4 if thorough else 3
    if not thorough:
        progs = progs[::3]          # quick tier: every third program of the shared corpus
    return arm_directed(bad, nvec, thorough) + progs


def tags_of(pm):
    """Which of the listed arm / thumb defect classes the module handed to the back-end can touch at all (part of the
    violation key; determined from the IR, not by the oracle):
      stackargs  a function with more than four parameters (parameters passed in memory)
      cast       a cast from or to an 8 / 16-bit integer type
      narrowop   an arithmetic / shift / comparison / division on an 8 / 16-bit type
      sdiv       a signed division or remainder (i32, i16, i8)
      udiv       an unsigned division or remainder"""
    tags = set()
    narrow = ("i8", "u8", "i16", "u16")
    for f in pm["funcs"]:
        if len(f["params"]) > 4:
            tags.add("stackargs")
        for b in f["blocks"]:
            for i in b["ins"]:
                if i["k"] == "cast" and (i.get("aty") in narrow or i.get("ty") in narrow) and i.get("aty") != i.get("ty"):
                    tags.add("cast")
                elif i["k"] == "cjmp" and i.get("aty") in narrow:
                    tags.add("narrowop")
                elif i["k"] == "binop":
                    if i["ty"] in narrow and i["op"] not in ("&", "|", "^"):
                        tags.add("narrowop")
                    if i["op"] in ("/", "%"):
                        tags.add("sdiv" if i["ty"].startswith("i") else "udiv")
                elif i["k"] == "unop" and i["ty"] in narrow:
                    tags.add("narrowop")
    return "{%s}" % "+".join(sorted(tags)) if tags else ""


def stub_object(march, pm):
    names = [g for g in pm["globals"] if g["k"] == "xfn"]
    if not names:
        return None
    lines = []
    for g in names:
        lines += ["global %s" % g["name"], "%s:" % g["name"]]
        if g["ret"]:
            lines.append("mov r0, %d" % STUB_VALUE)
        lines.append("mov pc, lr")
    return rvlink.build_object(march, ["section code"] + lines)


def prepare(ctx, progs, levels):
    from engines import c05rv
    from ppci import api

    ready = []
    rt = {march: runtime_object(march) for _, march in MARCHS}
    for p in progs:
        try:
            pm = project_ir.project_module(p["make"](), 4)
        except Exception:
            ctx.cov["arm_build_failed"] = ctx.cov.get("arm_build_failed", 0) + 1
            continue
        if not c05rv.module_types(pm) <= set(TYPES) | {"ptr"}:
            ctx.cov["arm_skipped_types"] = ctx.cov.get("arm_skipped_types", 0) + 1
            continue
        f = [x for x in pm["funcs"] if x["name"] == p["fn"]]
        if not f or not f[0]["ret"] or any(q["ty"] not in TYPES for q in f[0]["params"]) or any(g["k"] == "xvar" for g in pm["globals"]):
            ctx.cov["arm_skipped_signature"] = ctx.cov.get("arm_skipped_signature", 0) + 1
            continue
        ptys = [q["ty"] for q in f[0]["params"]]
        vecs = [v for v in p["vecs"] if len(v) == len(ptys)]
        if not vecs:
            continue
        globs = [(g["name"], g["size"]) for g in pm["globals"] if g["k"] == "var"]
        images, variants = {}, []
        for isa, march in MARCHS:
            for lv in levels:
                label = "%s-O%s" % (isa, lv)
                try:
                    def work(march=march, lv=lv):
                        m = p["make"]()
                        if lv != "0":
                            api.optimize(m, level=lv)
                        return api.ir_to_object([m], rvlink.arch_of(march))

                    obj = native.limited(work, native.COMPILE_LIMIT_S, "arm codegen")
                except Exception as e:      # the back-end (or the optimiser) raised: C29 / C28's business, counted
                    k = "arm_skipped_codegen_%s_%s" % (isa, type(e).__name__)
                    ctx.cov[k] = ctx.cov.get(k, 0) + 1
                    continue
                try:
                    stub = stub_object(march, pm)
                    objs = [obj] + ([stub] if stub is not None else []) + ([rt[march]] if rt[march] is not None else [])
                    linked = rvlink.link_objects(objs, LAYOUT)
                    img = rvlink.image_of(linked, p["fn"], globs)
                except Exception as e:
                    variants.append((label, isa, None, "error:link:" + type(e).__name__))
                    continue
                if img is None or rvlink.images_overlap(img):
                    variants.append((label, isa, None, "error:image"))
                    continue
                h = isa + native.digest(repr((img["segs"], img["entry"])).encode())
                images.setdefault(h, (isa, img))
                variants.append((label, isa, h, None))
        if not variants:
            continue
        ready.append({"p": p, "pm": pm, "tags": tags_of(pm), "ptys": ptys, "ret": f[0]["ret"], "vecs": vecs, "globs": globs, "images": images,
                      "variants": variants})
    return ready


def execute_and_judge(ctx, ready, levels_label=""):
    """run 1: ArmExec executes every distinct image on every vector; run 2: IR.tla judges the observations"""
    cases, meta = [], []
    for r in ready:
        for h, (isa, img) in r["images"].items():
            cases.append({"id": r["p"]["key"], "isa": isa, "imgs": [img], "sp": SP, "ra": RA, "keep": KEEP[isa], "fuel": FUEL,
                          "calls": [call_record(r["ptys"], v) for v in r["vecs"]]})
            meta.append((r, h))
    ctx.cov["arm_distinct_images_executed"] = ctx.cov.get("arm_distinct_images_executed", 0) + len(cases)
    observed = {}
    steps = []
    for b0 in range(0, len(cases), 2500):
        res, obs = run_images(ctx, cases[b0:b0 + 2500], "ArmExec.tla executes the linked images (%d)" % (b0 // 2500), emit=True)
        for e in res.errors:
            raise MachineryError("unexpected TLC error in the Arm_Run run: %s\n%s" % (e, e.text[:1500]))
        for (ci, av, im), (o, n) in obs.items():
            r, h = meta[b0 + ci - 1]
            observed[(id(r), h, av)] = (o, n)
            steps.append(n)
    if steps:
        ctx.cov["arm_machine_instructions_executed"] = ctx.cov.get("arm_machine_instructions_executed", 0) + sum(steps)
        ctx.cov["arm_max_instructions_per_call"] = max(steps + [ctx.cov.get("arm_max_instructions_per_call", 0)])
    TYB = {t: int(t[1:]) // 8 for t in TYPES}
    ir_cases, ir_meta = [], []
    skipped = {}
    for r in ready:
        for vi, vec in enumerate(r["vecs"]):
            groups = {}
            for label, isa, h, err in r["variants"]:
                if err is not None:
                    ob = {"outcome": err, "ret": [], "globals": [], "hascalls": False, "calls": []}
                else:
                    got = observed.get((id(r), h, vi + 1))
                    if got is None:
                        raise MachineryError("no observation for %s %s vector %d" % (r["p"]["key"], label, vi + 1))
                    o, n = got
                    st = o["status"]
                    if st in ("fuel", "outofmodel"):
                        # fuel: not judged.  outofmodel: an instruction outside ArmExec's subset (or an UNPREDICTABLE use): no verdict
                        skipped[st] = skipped.get(st, 0) + 1
                        skipped.setdefault(st + "_programs", set()).add(r["p"]["key"] + ":" + label)
                        continue
                    if st == "ok" and not o["kept"]:
                        st = "convention-not-kept"
                    ob = {"outcome": "ok" if st == "ok" else "error:" + st,
                          "ret": list(o["r0"][:TYB[r["ret"]]]) if st == "ok" else [],
                          "globals": [{"name": g["name"], "bytes": list(g["bytes"])} for g in o["globals"]] if st == "ok" else [],
                          "hascalls": False, "calls": []}
                groups.setdefault(repr(ob), (ob, []))[1].append((label, isa))
            for ob, labels in groups.values():
                ir_cases.append({"id": "%s@%d" % (r["p"]["key"], vi), "mods": [r["pm"]], "fn": r["p"]["fn"],
                                 "argv": [[project_ir.limbs(v, TYB[t]) for v, t in zip(vec, r["ptys"])]],
                                 "ext": r["p"]["ext"], "fuel": 3000, "obs": ob})
                ir_meta.append((r, vec, labels, ob))
                ctx.count(None, n=len(labels))
    sk = ctx.cov.setdefault("arm_skipped_machine_side", {})
    for k, v in skipped.items():
        if isinstance(v, set):
            sk[k] = sorted(set(sk.get(k, [])) | v)[:12]
        else:
            sk[k] = sk.get(k, 0) + v
    if skipped.get("outofmodel"):
        ctx.note("arm/thumb: %d (variant, vector) executions reach an instruction outside ArmExec's subset: no verdict" % skipped["outofmodel"])
    for r, vec, labels, ob in ir_meta[:2]:
        ctx.sample({"program": r["p"]["key"], "args": vec, "variants": [l for l, _ in labels], "observed": ob["outcome"], "r0": ob["ret"]})
    judged = 0
    for b0 in range(0, len(ir_cases), 5000):
        part = ir_cases[b0:b0 + 5000]
        path = ctx.trace_file(part)
        res2 = ctx.tlc("IR", IR_CFG, label="IR.tla judges the arm / thumb observations (%d)" % (b0 // 5000), env={"TRACE_FILE": path},
                       continue_=True, workers=WORKERS, heap="8g")
        os.unlink(path)
        seen = set()
        for e in res2.errors:
            st = e.last
            i = st.get("i")
            if e.kind != "invariant" or e.name != "ObsMatchesImpl" or not isinstance(i, int) or not 1 <= i <= len(part):
                raise MachineryError("unexpected TLC error in the IR run: %s\n%s" % (e, e.text[:1500]))
            r, vec, labels, ob = ir_meta[b0 + i - 1]
            for lab, isa in labels:
                key = "C05:%s:%s%s:%s" % (isa, r["tags"], r["p"]["key"], lab)
                if key in seen:
                    continue
                seen.add(key)
                ctx.violation(key, "%s(%s) [%s]: the linked image executed by ArmExec.tla ends %s with r0=%s globals=%s; the IR prescribes ret=%s" % (
                    r["p"]["fn"], ", ".join(map(str, vec)), lab, ob["outcome"], ob["ret"],
                    {g["name"]: bytes(g["bytes"]).hex() for g in ob["globals"]}, st.get("ret")),
                    {"program": r["p"]["key"], "part": "arm", "source": r["p"]["src"][:6000], "args": vec, "variant": lab,
                     "observed": ob, "ir_state": {x: st.get(x) for x in ("status", "ret")}})
        judged += len(part)
    ctx.cov["traces_validated_against_impl"] += judged
    ctx.cov["distinct_nontrivial"] += sum(len(m[2]) for m in ir_meta)


def c05_part(ctx, thorough, only=None):
    """C05 for march arm and arm:thumb.  `only`: replay of one program key."""
    from engines.c05 import LEVELS

    ctx.assume("tla/ArmExec.tla is the meaning of the A32 / Thumb machine code ppci emits (C08 validates ppci's encodings against "
               "Arm32.DecodeA / Thumb.Decode, Arm_MC the laws of ArmExec); the instruction-set state never changes; unaligned data "
               "accesses are performed byte-wise; the calling convention is the one ppci's ArmArch declares (arguments r1..r4 then "
               "memory at sp + 8, result r0, callee-saved r5..r10 + r11 in ARM state, r5, r6 + r7 in Thumb state, sp)")
    if only is None:
        model_check(ctx, thorough)
        micro(ctx)
    bad = probe_unsupported(ctx)
    progs = programs(ctx, bad, thorough)
    if only is not None:
        progs = [p for p in progs if p["key"] == only]
    ctx.cov["arm_programs_generated"] = len(progs)
    levels = LEVELS if thorough or only is not None else ("0", "2")
    ready = prepare(ctx, progs, levels)
    ctx.cov["arm_programs_compiled"] = len(ready)
    nvar = sum(len(r["variants"]) for r in ready)
    ctx.cov["arm_variants"] = nvar
    if only is None and nvar * 3 < len(progs) * len(MARCHS) * len(levels):
        ctx.violation("C05:arm:code-generation-collapses", "ppci generated arm / thumb code for only %d of %d (module, variant, level) "
                      "combinations of the corpus: nothing is left to compare with the IR" % (nvar, len(progs) * len(MARCHS) * len(levels)),
                      {"part": "arm", "skipped": {k: v for k, v in ctx.cov.items() if k.startswith("arm_skipped")}})
    execute_and_judge(ctx, ready)


def c05_hook(ctx, thorough, part, only):
    """called from engines/c05.py: part = "" (all parts) | "arm" | another part's name; only = program key of a replay"""
    if part not in ("", "arm"):
        return False
    c05_part(ctx, thorough, only if ctx.only is not None else None)
    return part == "arm"


def model_check(ctx, thorough):
    """M: laws of ArmExec.tla (tla/Arm_MC.tla)"""
    cfg = "CONSTANT Deep = %s\nINIT Init\nNEXT Next\nCHECK_DEADLOCK FALSE\n" % ("TRUE" if thorough else "FALSE")
    cfg += "".join("INVARIANT %s\n" % x for x in ARM_MC_LAWS)
    res = ctx.tlc("Arm_MC", cfg, label="M: laws of ArmExec.tla", workers=WORKERS, coverage=False)
    for e in res.errors:
        raise MachineryError("a law of ArmExec.tla fails in the specification itself: %s\n%s" % (e, e.text[:2000]))
    from . import tlcclean
    tlcclean.clean(res, "Arm_MC")


ARM_MC_LAWS = ["LawFlags", "LawShifter", "LawCond", "LawBlock", "LawWritesOnly", "LawReadsOnly"]
