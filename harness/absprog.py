"""Abstract typed imperative programs (DESIGN §3.8): generated as a JSON AST that
(a) Src.tla interprets and (b) is rendered as C (and, for restricted dialects,
C3 / annotated Python).  All randomness comes from the rng passed in.

Types (names used in the AST): c8 u8 i16 u16 i32 u32 i64 u64 (C: signed char,
unsigned char, short, unsigned short, int, unsigned int, long long, unsigned
long long) and, only when asked for (TYPES10), il ul (long, unsigned long; 64 bits: LP64).  Expressions carry no computed types: typing (promotions, usual
arithmetic conversions) is the specification's business.

AST
 program   {"globals":[gdecl], "externs":[{"n","ret":T,"args":[T]}], "funcs":[func], "main": name}
 gdecl     {"n", "ty":T, "len":0|N, "init":[ints]}            (len>0: array)
           {"n", "struct":[{"f","ty"} | {"anon":[{"f","ty"}]}], "init":[ints]}   (one struct object; "anon" = anonymous
                                                                 struct member, its fields are accessed as s.f; init in declaration order)
 func      {"n","ret":T,"params":[{"n","ty"}],"body":[stmt]}
 stmt      {"k":"decl","n","ty","e"} | {"k":"declarr","n","ty","len","init":[ints]}
           {"k":"asg","lhs":lv,"op":"="|"+="|...,"e"} | {"k":"inc","lhs":lv,"op":"++"|"--"}
           {"k":"if","c","t":[stmt],"f":[stmt]} | {"k":"while","c","b":[stmt]} | {"k":"dowhile","c","b"}
           {"k":"for","v":name,"lo":int,"hi":e,"b":[stmt]}   (for (v = lo; v < hi; v++), v is i32, hi evaluated each time)
           {"k":"switch","e","cases":[{"v":int|None,"b":[stmt],"brk":bool}]}
           {"k":"break"} | {"k":"continue"} | {"k":"ret","e"} | {"k":"expr","e"}
           {"k":"seq","b":[stmt]}   (statements in the enclosing scope, rendered without braces)
 lv        {"k":"var","n"} | {"k":"idx","a","e"} | {"k":"fld","s","f"} | {"k":"deref","p","e"}   (p[e])
 expr      lv | {"k":"lit","ty","v"} | {"k":"un","op","a"} | {"k":"bin","op","a","b"} | {"k":"cast","ty","a"}
           | {"k":"cond","c","a","b"} | {"k":"call","f","args"} | {"k":"addr","a","e"}   (&a[e], pointer into a global array)

Other entry points: to_src (the AST as tla/Src.tla reads it), src_args, render_gcc_main (reference harness for
gcc), sanitize (the same program without given construct classes), DEFAULT_FEATURES / C01_FEATURES (generator options).
"""

TYPES = ["c8", "u8", "i16", "u16", "i32", "u32", "i64", "u64"]
TYPES10 = TYPES + ["il", "ul"]       # with long / unsigned long (LP64 targets only; used by the C01 engine)
BITS = {"c8": 8, "u8": 8, "i16": 16, "u16": 16, "i32": 32, "u32": 32, "i64": 64, "u64": 64, "il": 64, "ul": 64}
CNAME = {"c8": "signed char", "u8": "unsigned char", "i16": "short", "u16": "unsigned short",
         "i32": "int", "u32": "unsigned int", "i64": "long long", "u64": "unsigned long long",
         "il": "long", "ul": "unsigned long"}
SUFFIX = {"i32": "", "u32": "u", "i64": "ll", "u64": "ull", "il": "l", "ul": "ul"}


def flat_fields(g):
    """The members of a struct global in declaration order, anonymous struct members flattened."""
    out = []
    for f in g["struct"]:
        out += f["anon"] if "anon" in f else [f]
    return out


def is_signed(t):
    return t[0] in "ci"


def trange(t):
    b = BITS[t]
    return (-(1 << (b - 1)), (1 << (b - 1)) - 1) if is_signed(t) else (0, (1 << b) - 1)


# opt-in generator features for the C01 engine (the default feature set is unchanged, so the programs that the
# C02 / C03 corpora draw from a seed stay the same):
#   safe_narrow  values stored into / passed as / returned as a signed type narrower than 64 bits are mostly
#                reduced with `% m` first, so that fewer executions end in an implementation-defined conversion
#   call_stmts   calls of generated functions mostly as `T v = f(leaf, ...);` statements, rarely inside larger
#                expressions, so that fewer executions depend on an unspecified evaluation order
#   sinks        (default) no dead computation: the final return of every function combines (^) the generated
#                expression with all parameters and top-level locals, and "sink" statements store locals into
#                globals / pass them to external calls, so that a wrong intermediate value reaches the observation
DEFAULT_FEATURES = {"arrays", "structs", "pointers", "switch", "calls", "extern", "loops",
                    "shortcircuit", "cond", "casts", "compound", "div", "shift", "sinks"}
#   anonstruct   struct globals get an anonymous struct member (not the first one)
C01_FEATURES = DEFAULT_FEATURES | {"safe_narrow", "call_stmts", "anonstruct"}


class Gen:
    def __init__(self, rng, max_funcs=3, max_stmts=8, max_depth=3, types=None, features=None):
        self.r = rng
        self.max_funcs = max_funcs
        self.max_stmts = max_stmts
        self.max_depth = max_depth
        self.types = types or TYPES
        self.feat = features or DEFAULT_FEATURES
        self.uid = 0

    def name(self, p):
        self.uid += 1
        return "%s%d" % (p, self.uid)

    def pick_type(self):
        return self.r.choice(self.types)

    def fit(self, e, ty):
        """(safe_narrow) make the value fit the signed type ty without changing the type discipline under test."""
        if "safe_narrow" not in self.feat or not is_signed(ty) or BITS[ty] == 64 or self.r.random() < 0.12:
            return e
        return {"k": "bin", "op": "%", "a": e, "b": {"k": "lit", "ty": "i32", "v": {8: 100, 16: 30000, 32: 2000000000}[BITS[ty]]}}

    def lv_type(self, lv):
        k = lv["k"]
        if k == "var":
            vs = self.vars_in_scope()
            if lv["n"] in vs:
                return vs[lv["n"]]
            return [g for g in self.globals if g["n"] == lv["n"]][0]["ty"]
        if k == "idx":
            return [g for g in self.globals + self.local_arrays if g["n"] == lv["a"]][0]["ty"]
        if k == "fld":
            g = [g for g in self.globals if g["n"] == lv["s"]][0]
            return [f for f in flat_fields(g) if f["f"] == lv["f"]][0]["ty"]
        return self.ptrs[0]["ty"]

    def lit(self, ty=None):
        r = self.r
        ty = ty or r.choice([t for t in ("i32", "i32", "u32", "i64", "u64", "il", "ul") if t in self.types or t == "i32"])
        lo, hi = trange(ty)
        c = r.random()
        if c < 0.6:
            v = r.randrange(0, 12)
        elif c < 0.8:
            v = r.choice([hi, hi - 1, 255, 256, 127, 128, 65535, 32767, 32768, 0x7FFFFFFF, 0xFF00, 100, 1000])
        else:
            v = r.randrange(0, 1 << 16)
        v = min(v, hi)
        return {"k": "lit", "ty": ty, "v": v}

    # ---- program --------------------------------------------------------
    def program(self):
        r = self.r
        self.globals = []
        self.externs = []
        self.funcs = []
        ng = r.randrange(1, 4)
        for _ in range(ng):
            ty = self.pick_type()
            lo, hi = trange(ty)
            self.globals.append({"n": self.name("g"), "ty": ty, "len": 0,
                                 "init": [r.randrange(max(lo, -50), min(hi, 100))]})
        if "arrays" in self.feat:
            for _ in range(r.randrange(1, 3)):
                ty = self.pick_type()
                n = r.choice([2, 3, 4, 5, 8])
                lo, hi = trange(ty)
                self.globals.append({"n": self.name("a"), "ty": ty, "len": n,
                                     "init": [r.randrange(max(lo, -20), min(hi, 60)) for _ in range(n)]})
        if "structs" in self.feat and r.random() < 0.6:
            fl = [{"f": "m%d" % k, "ty": self.pick_type()} for k in range(r.randrange(2, 5))]
            if "anonstruct" in self.feat and r.random() < 0.7:
                # an anonymous struct member, never the first; u8 fillers make its size a multiple of its alignment
                inner = [{"f": "n%d" % k, "ty": self.pick_type()} for k in range(r.randrange(1, 4))]
                al = max(BITS[f["ty"]] for f in inner) // 8
                off = 0
                for f in inner:
                    n = BITS[f["ty"]] // 8
                    off = (off + n - 1) // n * n + n
                for k in range((-off) % al):
                    inner.append({"f": "z%d" % k, "ty": "u8"})
                fl.insert(r.randrange(1, len(fl) + 1), {"anon": inner})
            g = {"n": self.name("s"), "struct": fl}
            g["init"] = [r.randrange(0, 50) for _ in flat_fields(g)]
            self.globals.append(g)
        if "extern" in self.feat and r.random() < 0.7:
            self.externs.append({"n": "ext_a", "ret": "i32", "args": ["i32"]})
            if r.random() < 0.5:
                self.externs.append({"n": "ext_b", "ret": "i32", "args": ["i32", "i32"]})
        nf = r.randrange(1, self.max_funcs + 1)
        for k in range(nf):
            self.funcs.append(self.func(k, nf))
        return {"globals": self.globals, "externs": self.externs, "funcs": self.funcs, "main": self.funcs[-1]["n"]}

    def func(self, k, nf):
        r = self.r
        nparams = r.randrange(0, 4) if k < nf - 1 else r.randrange(1, 4)
        params = [{"n": self.name("p"), "ty": self.pick_type()} for _ in range(nparams)]
        ptr_param = None
        arrays = [g for g in self.globals if g.get("len")]
        if "pointers" in self.feat and arrays and k < nf - 1 and r.random() < 0.4:
            a = r.choice(arrays)
            ptr_param = {"n": self.name("q"), "ty": a["ty"], "ptr": True, "len": a["len"]}
        ret = self.pick_type()
        self.cur_ret = ret
        self.scope = [dict((p["n"], p["ty"]) for p in params)]
        self.ptrs = [ptr_param] if ptr_param else []
        self.local_arrays = []
        self.loopdepth = 0
        self.cur_index = k
        self.in_switch = 0
        body = self.block(self.max_stmts, 0)
        e = self.expr(self.max_depth)
        if "sinks" in self.feat:
            # every parameter and every top-level local (all are initialised when the end of the body is reached)
            names = [p["n"] for p in params]
            for st in body:
                if st["k"] == "decl":
                    names.append(st["n"])
                elif st["k"] == "seq" and st["b"] and st["b"][0]["k"] == "decl":
                    names.append(st["b"][0]["n"])
            for n in names:
                e = {"k": "bin", "op": "^", "a": e, "b": {"k": "var", "n": n}}
        body.append({"k": "ret", "e": self.fit(e, ret)})
        f = {"n": "f%d" % k, "ret": ret, "params": params + ([ptr_param] if ptr_param else []), "body": body}
        return f

    # ---- statements -----------------------------------------------------
    def vars_in_scope(self):
        out = {}
        for s in self.scope:
            out.update(s)
        return out

    def block(self, budget, depth):
        r = self.r
        out = []
        self.scope.append({})
        n = r.randrange(1, max(2, budget))
        for _ in range(n):
            out.append(self.stmt(max(1, budget // 2), depth))
        self.scope.pop()
        return out

    def lvalue(self, depth):
        r = self.r
        opts = []
        vs = self.vars_in_scope()
        loopvars = getattr(self, "_loopvars", set())
        vs = {n: t for n, t in vs.items() if n not in loopvars}
        if vs:
            opts += ["var"] * 3
        gs = [g for g in self.globals if not g.get("len") and "struct" not in g]
        if gs:
            opts += ["gvar"] * 2
        arrs = [g for g in self.globals if g.get("len")] + self.local_arrays
        if arrs and "arrays" in self.feat:
            opts += ["idx"] * 2
        ss = [g for g in self.globals if "struct" in g]
        if ss:
            opts.append("fld")
        if self.ptrs:
            opts.append("deref")
        c = r.choice(opts)
        if c == "var":
            return {"k": "var", "n": r.choice(sorted(vs))}
        if c == "gvar":
            return {"k": "var", "n": r.choice(gs)["n"]}
        if c == "idx":
            a = r.choice(arrs)
            return {"k": "idx", "a": a["n"], "e": self.index_expr(a["len"], depth)}
        if c == "fld":
            s = r.choice(ss)
            return {"k": "fld", "s": s["n"], "f": r.choice(flat_fields(s))["f"]}
        p = self.ptrs[0]
        return {"k": "deref", "p": p["n"], "e": self.index_expr(p["len"], depth)}

    def index_expr(self, n, depth):
        """An index guaranteed in range: constant, or (unsigned)e % n."""
        r = self.r
        if r.random() < 0.5 or depth <= 0:
            return {"k": "lit", "ty": "i32", "v": r.randrange(n)}
        return {"k": "bin", "op": "%", "a": {"k": "cast", "ty": "u32", "a": self.expr(depth - 1)},
                "b": {"k": "lit", "ty": "u32", "v": n}}

    def stmt(self, budget, depth):
        r = self.r
        kinds = ["decl", "asg", "asg", "asg"]
        if depth < 2:
            kinds += ["if", "if"]
            if "loops" in self.feat:
                kinds += ["for", "while"]
                if r.random() < 0.3:
                    kinds.append("dowhile")
            if "switch" in self.feat:
                kinds.append("switch")
        if "compound" in self.feat:
            kinds += ["casg", "inc"]
        if self.loopdepth > 0 and not self.in_switch_only():
            kinds += ["break", "continue"]
        if "extern" in self.feat and self.externs:
            kinds.append("extcall")
        if "arrays" in self.feat and depth == 0 and r.random() < 0.15:
            kinds.append("declarr")
        if r.random() < 0.08:
            kinds.append("ret")
        if "call_stmts" in self.feat and "calls" in self.feat and self.cur_index > 0:
            kinds += ["calldecl", "calldecl"]
        if "sinks" in self.feat and self.vars_in_scope():
            kinds += ["sink", "sink"]
        k = r.choice(kinds)
        D = self.max_depth
        if k == "decl":
            ty = self.pick_type()
            e = self.fit(self.expr(D), ty)
            n = self.name("v")
            self.scope[-1][n] = ty
            return {"k": "decl", "n": n, "ty": ty, "e": e}
        if k == "sink":
            # make a local observable: store it into a global object or hand it to an external function
            vs = self.vars_in_scope()
            v = {"k": "var", "n": r.choice(sorted(vs))}
            if r.random() < 0.3:
                n2 = r.choice(sorted(vs))
                v = {"k": "bin", "op": r.choice(["^", "+", "-"]) if vs[n2][0] == "u" else "^", "a": v, "b": {"k": "var", "n": n2}}
            if "extern" in self.feat and self.externs and r.random() < 0.35:
                x = r.choice(self.externs)
                args = [self.fit(v, x["args"][0])] + [self.fit(self.leaf(), t) for t in x["args"][1:]]
                return {"k": "expr", "e": {"k": "call", "f": x["n"], "args": args}}
            gl = []
            for g in self.globals:
                if "struct" in g:
                    gl += [({"k": "fld", "s": g["n"], "f": f["f"]}, f["ty"]) for f in flat_fields(g)]
                elif g.get("len"):
                    gl.append(({"k": "idx", "a": g["n"], "e": {"k": "lit", "ty": "i32", "v": r.randrange(g["len"])}}, g["ty"]))
                else:
                    gl.append(({"k": "var", "n": g["n"]}, g["ty"]))
            lv, ty = r.choice(gl)
            return {"k": "asg", "lhs": lv, "op": r.choice(["=", "=", "^="]), "e": self.fit(v, ty)}
        if k == "calldecl":
            ty = self.pick_type()
            e = self.fit(self.call_expr(0), ty)
            n = self.name("v")
            self.scope[-1][n] = ty
            return {"k": "decl", "n": n, "ty": ty, "e": e}
        if k == "declarr":
            ty = self.pick_type()
            ln = r.choice([2, 3, 4])
            n = self.name("la")
            lo, hi = trange(ty)
            self.local_arrays.append({"n": n, "ty": ty, "len": ln})
            return {"k": "declarr", "n": n, "ty": ty, "len": ln,
                    "init": [r.randrange(max(lo, -9), min(hi, 40)) for _ in range(ln)]}
        if k == "asg":
            if "safe_narrow" in self.feat:
                lv = self.lvalue(D - 1)
                return {"k": "asg", "lhs": lv, "op": "=", "e": self.fit(self.expr(D), self.lv_type(lv))}
            return {"k": "asg", "lhs": self.lvalue(D - 1), "op": "=", "e": self.expr(D)}
        if k == "casg":
            ops = ["+=", "-=", "*=", "&=", "|=", "^="]
            if "div" in self.feat:
                ops += ["/=", "%="]
            if "shift" in self.feat:
                ops += ["<<=", ">>="]
            op = r.choice(ops)
            e = self.expr(D - 1)
            if op in ("/=", "%="):
                e = self.nonzero(e)
            if op in ("<<=", ">>="):
                e = {"k": "bin", "op": "&", "a": e, "b": {"k": "lit", "ty": "i32", "v": 7}}
            return {"k": "asg", "lhs": self.lvalue(D - 1), "op": op, "e": e}
        if k == "inc":
            return {"k": "inc", "lhs": self.lvalue(D - 1), "op": r.choice(["++", "--"])}
        if k == "if":
            return {"k": "if", "c": self.cond(D), "t": self.block(budget, depth + 1),
                    "f": self.block(budget, depth + 1) if r.random() < 0.5 else []}
        if k == "for":
            v = self.name("i")
            hi = {"k": "lit", "ty": "i32", "v": r.randrange(1, 6)} if r.random() < 0.6 else \
                {"k": "bin", "op": "&", "a": self.expr(1), "b": {"k": "lit", "ty": "i32", "v": r.choice([3, 7])}}
            self.scope.append({v: "i32"})
            lv = getattr(self, "_loopvars", set())
            self._loopvars = lv | {v}
            self.loopdepth += 1
            saved = self.in_switch
            self.in_switch = 0
            b = self.block(budget, depth + 1)
            self.in_switch = saved
            self.loopdepth -= 1
            self._loopvars = lv
            self.scope.pop()
            return {"k": "for", "v": v, "lo": r.randrange(0, 2), "hi": hi, "b": b}
        if k in ("while", "dowhile"):
            # counter-bounded: while (cnt > 0 && cond) { cnt--; body }
            cnt = self.name("w")
            self.scope[-1][cnt] = "i32"
            lv = getattr(self, "_loopvars", set())
            self._loopvars = lv | {cnt}
            self.loopdepth += 1
            saved = self.in_switch
            self.in_switch = 0
            b = self.block(budget, depth + 1)
            self.in_switch = saved
            self.loopdepth -= 1
            self._loopvars = lv
            c = {"k": "bin", "op": ">", "a": {"k": "var", "n": cnt}, "b": {"k": "lit", "ty": "i32", "v": 0}}
            if r.random() < 0.5:
                c = {"k": "bin", "op": "&&", "a": c, "b": self.cond(2)}
            body = [{"k": "inc", "lhs": {"k": "var", "n": cnt}, "op": "--"}] + b
            return {"k": "seq", "b": [{"k": "decl", "n": cnt, "ty": "i32", "e": {"k": "lit", "ty": "i32", "v": r.randrange(1, 5)}},
                                      {"k": k, "c": c, "b": body}]}
        if k == "switch":
            e = {"k": "bin", "op": "&", "a": self.expr(D - 1), "b": {"k": "lit", "ty": "i32", "v": 7}}
            vals = r.sample(range(8), r.randrange(1, 5))
            cases = []
            self.in_switch += 1
            for v in vals:
                cases.append({"v": v, "b": self.block(max(1, budget // 2), depth + 1), "brk": r.random() < 0.75})
            if r.random() < 0.7:
                cases.insert(r.randrange(len(cases) + 1), {"v": None, "b": self.block(max(1, budget // 2), depth + 1), "brk": r.random() < 0.8})
            self.in_switch -= 1
            return {"k": "switch", "e": e, "cases": cases}
        if k == "break":
            return {"k": "if", "c": self.cond(2), "t": [{"k": "break"}], "f": []}
        if k == "continue":
            return {"k": "if", "c": self.cond(2), "t": [{"k": "continue"}], "f": []}
        if k == "extcall":
            x = r.choice(self.externs)
            return {"k": "expr", "e": {"k": "call", "f": x["n"], "args": [self.fit(self.expr(D - 1), t) for t in x["args"]]}}
        if k == "ret":
            return {"k": "if", "c": self.cond(2), "t": [{"k": "ret", "e": self.fit(self.expr(D), self.cur_ret)}], "f": []}
        raise AssertionError(k)

    def in_switch_only(self):
        # 'continue' inside a switch inside a loop is fine; 'break' would leave the switch: both allowed in C.
        return False

    def nonzero(self, e):
        # (e | 1) never zero; avoids INT_MIN / -1 only partially (Src.tla flags the rest as undefined)
        return {"k": "bin", "op": "|", "a": e, "b": {"k": "lit", "ty": "i32", "v": 1}}

    def cond(self, depth):
        r = self.r
        op = r.choice(["<", "<=", ">", ">=", "==", "!="])
        c = {"k": "bin", "op": op, "a": self.expr(depth - 1), "b": self.expr(depth - 1)}
        if "shortcircuit" in self.feat and depth > 1 and r.random() < 0.35:
            c = {"k": "bin", "op": r.choice(["&&", "||"]), "a": c, "b": self.cond(depth - 1)}
        if r.random() < 0.1:
            c = {"k": "un", "op": "!", "a": c}
        return c

    def expr(self, depth):
        r = self.r
        if depth <= 0 or r.random() < 0.25:
            return self.leaf()
        c = r.random()
        if c < 0.55:
            ops = ["+", "-", "*", "&", "|", "^"]
            if "div" in self.feat:
                ops += ["/", "%"]
            if "shift" in self.feat:
                ops += ["<<", ">>"]
            op = r.choice(ops)
            a = self.expr(depth - 1)
            b = self.expr(depth - 1)
            if op in ("/", "%"):
                b = self.nonzero(b)
            if op in ("<<", ">>"):
                b = {"k": "bin", "op": "&", "a": b, "b": {"k": "lit", "ty": "i32", "v": r.choice([3, 7, 15])}}
                if op == "<<":
                    a = {"k": "cast", "ty": r.choice([t for t in ("u32", "u64", "u8", "u16") if t in self.types] or ["u32"]), "a": a}
            return {"k": "bin", "op": op, "a": a, "b": b}
        if c < 0.65:
            return self.cond(depth)
        if c < 0.75 and "casts" in self.feat:
            return {"k": "cast", "ty": self.pick_type(), "a": self.expr(depth - 1)}
        if c < 0.82:
            return {"k": "un", "op": r.choice(["-", "~", "!"]), "a": self.expr(depth - 1)}
        if c < 0.88 and "cond" in self.feat:
            return {"k": "cond", "c": self.cond(depth - 1), "a": self.expr(depth - 1), "b": self.expr(depth - 1)}
        if c < (0.91 if "call_stmts" in self.feat else 0.97) and "calls" in self.feat and self.cur_index > 0:
            return self.call_expr(depth - 1)
        if "extern" in self.feat and self.externs and r.random() < 0.5:
            x = r.choice(self.externs)
            return {"k": "call", "f": x["n"], "args": [self.fit(self.expr(depth - 1), t) for t in x["args"]]}
        return self.leaf()

    def call_expr(self, depth):
        r = self.r
        f = self.r.choice(self.funcs[: self.cur_index])
        args = []
        for p in f["params"]:
            if p.get("ptr"):
                cands = [g for g in self.globals if g.get("len") == p["len"] and g["ty"] == p["ty"]]
                a = r.choice(cands)
                args.append({"k": "addr", "a": a["n"], "e": {"k": "lit", "ty": "i32", "v": 0}})
            else:
                args.append(self.fit(self.expr(depth), p["ty"]))
        return {"k": "call", "f": f["n"], "args": args}

    def leaf(self):
        r = self.r
        if r.random() < 0.35:
            return self.lit()
        opts = []
        vs = self.vars_in_scope()
        if vs:
            opts += ["var"] * 4
        gs = [g for g in self.globals if not g.get("len") and "struct" not in g]
        if gs:
            opts += ["gvar"] * 2
        arrs = [g for g in self.globals if g.get("len")] + self.local_arrays
        if arrs and "arrays" in self.feat:
            opts += ["idx"] * 2
        ss = [g for g in self.globals if "struct" in g]
        if ss:
            opts.append("fld")
        if self.ptrs:
            opts += ["deref"] * 2
        if not opts:
            return self.lit()
        c = r.choice(opts)
        if c == "var":
            return {"k": "var", "n": r.choice(sorted(vs))}
        if c == "gvar":
            return {"k": "var", "n": r.choice(gs)["n"]}
        if c == "idx":
            a = r.choice(arrs)
            return {"k": "idx", "a": a["n"], "e": self.index_expr(a["len"], 1)}
        if c == "fld":
            s = r.choice(ss)
            return {"k": "fld", "s": s["n"], "f": r.choice(flat_fields(s))["f"]}
        p = self.ptrs[0]
        return {"k": "deref", "p": p["n"], "e": self.index_expr(p["len"], 1)}


# ---------------------------------------------------------------- C rendering
def c_lit(e):
    v, ty = e["v"], e["ty"]
    if ty in SUFFIX:
        if e.get("hex") and v >= 0:      # hexadecimal / octal spelling: 6.4.4.1 adds the unsigned types to the list
            return ("0x%X%s" if e["hex"] == 16 else "0%o%s") % (v, SUFFIX[ty])
        return "%d%s" % (v, SUFFIX[ty])
    return "((%s)%d)" % (CNAME[ty], v)


# C operator precedence (ISO C 6.5, higher binds tighter); used by the minimal-parentheses rendering
C_PREC = {"*": 13, "/": 13, "%": 13, "+": 12, "-": 12, "<<": 11, ">>": 11, "<": 10, "<=": 10, ">": 10, ">=": 10,
          "==": 9, "!=": 9, "&": 8, "^": 7, "|": 6, "&&": 5, "||": 4}
MINPAREN = False  # set by render_c(prog, minparen=True) for the duration of one rendering


def c_expr_min(e, need=0):
    """The expression with only the parentheses the C grammar requires (all binary operators are left
    associative: the right operand needs one level more); `need` = lowest precedence that may stand here."""
    k = e["k"]
    if k in ("lit", "var", "idx", "fld", "deref", "call"):
        if k == "lit":
            s = c_lit(e)
            return "(%s)" % s if s.startswith("-") and need > 15 else s
        if k == "idx":
            return "%s[%s]" % (e["a"], c_expr_min(e["e"]))
        if k == "deref":
            return "%s[%s]" % (e["p"], c_expr_min(e["e"]))
        if k == "call":
            return "%s(%s)" % (e["f"], ", ".join(c_expr_min(a, 2) for a in e["args"]))
        if k == "var":
            return e["n"]
        return "%s.%s" % (e["s"], e["f"])
    if k == "addr":
        own, s = 15, "&%s[%s]" % (e["a"], c_expr_min(e["e"]))
    elif k == "un":
        a = c_expr_min(e["a"], 15)
        own, s = 15, e["op"] + (" " if a[:1] in "-+&*" else "") + a
    elif k == "cast":
        own, s = 14, "(%s)%s" % (CNAME[e["ty"]], c_expr_min(e["a"], 14))
    elif k == "bin":
        own = C_PREC[e["op"]]
        s = "%s %s %s" % (c_expr_min(e["a"], own), e["op"], c_expr_min(e["b"], own + 1))
    elif k == "cond":
        own, s = 3, "%s ? %s : %s" % (c_expr_min(e["c"], 4), c_expr_min(e["a"]), c_expr_min(e["b"], 3))
    else:
        raise AssertionError(k)
    return "(%s)" % s if own < need else s


def c_expr(e):
    if MINPAREN:
        return c_expr_min(e)
    k = e["k"]
    if k == "lit":
        return c_lit(e)
    if k == "var":
        return e["n"]
    if k == "idx":
        return "%s[%s]" % (e["a"], c_expr(e["e"]))
    if k == "fld":
        return "%s.%s" % (e["s"], e["f"])
    if k == "deref":
        return "%s[%s]" % (e["p"], c_expr(e["e"]))
    if k == "addr":
        return "(&%s[%s])" % (e["a"], c_expr(e["e"]))
    if k == "un":
        return "(%s%s)" % (e["op"], c_expr(e["a"]))
    if k == "bin":
        return "(%s %s %s)" % (c_expr(e["a"]), e["op"], c_expr(e["b"]))
    if k == "cast":
        return "((%s)%s)" % (CNAME[e["ty"]], c_expr(e["a"]))
    if k == "cond":
        return "(%s ? %s : %s)" % (c_expr(e["c"]), c_expr(e["a"]), c_expr(e["b"]))
    if k == "call":
        return "%s(%s)" % (e["f"], ", ".join(c_expr(a) for a in e["args"]))
    raise AssertionError(k)


def c_stmts(ss, ind):
    out = []
    p = "  " * ind
    for s in ss:
        k = s["k"]
        if k == "decl":
            out.append("%s%s %s = %s;" % (p, CNAME[s["ty"]], s["n"], c_expr(s["e"])))
        elif k == "declarr":
            out.append("%s%s %s[%d] = {%s};" % (p, CNAME[s["ty"]], s["n"], s["len"], ", ".join(map(str, s["init"]))))
        elif k == "asg":
            out.append("%s%s %s %s;" % (p, c_expr(s["lhs"]), s["op"], c_expr(s["e"])))
        elif k == "inc":
            out.append("%s%s%s;" % (p, c_expr(s["lhs"]), s["op"]))
        elif k == "if":
            out.append("%sif (%s) {" % (p, c_expr(s["c"])))
            out += c_stmts(s["t"], ind + 1)
            if s["f"]:
                out.append("%s} else {" % p)
                out += c_stmts(s["f"], ind + 1)
            out.append("%s}" % p)
        elif k == "while":
            out.append("%swhile (%s) {" % (p, c_expr(s["c"])))
            out += c_stmts(s["b"], ind + 1)
            out.append("%s}" % p)
        elif k == "dowhile":
            out.append("%sdo {" % p)
            out += c_stmts(s["b"], ind + 1)
            out.append("%s} while (%s);" % (p, c_expr(s["c"])))
        elif k == "for":
            # the bound is the right operand of `<`: it needs one level more than the relational operators
            hi = c_expr_min(s["hi"], C_PREC["<"] + 1) if MINPAREN else c_expr(s["hi"])
            out.append("%sfor (int %s = %d; %s < %s; %s++) {" % (p, s["v"], s["lo"], s["v"], hi, s["v"]))
            out += c_stmts(s["b"], ind + 1)
            out.append("%s}" % p)
        elif k == "seq":
            out += c_stmts(s["b"], ind)
        elif k == "switch":
            out.append("%sswitch (%s) {" % (p, c_expr(s["e"])))
            for c in s["cases"]:
                out.append("%s  %s" % (p, "default:" if c["v"] is None else "case %d:" % c["v"]))
                out.append("%s  {" % p)
                out += c_stmts(c["b"], ind + 2)
                out.append("%s  }" % p)
                if c["brk"]:
                    out.append("%s    break;" % p)
            out.append("%s}" % p)
        elif k == "break":
            out.append(p + "break;")
        elif k == "continue":
            out.append(p + "continue;")
        elif k == "ret":
            out.append("%sreturn %s;" % (p, c_expr(s["e"])))
        elif k == "expr":
            out.append("%s%s;" % (p, c_expr(s["e"])))
        else:
            raise AssertionError(k)
    return out


def render_c(prog, minparen=None):
    """C text of the abstract program; minparen=True writes expressions with only the parentheses the C
    grammar requires (exercises the parser's precedence and associativity), otherwise fully parenthesised."""
    global MINPAREN
    old, MINPAREN = MINPAREN, bool(prog.get("minparen") if minparen is None else minparen)
    try:
        return _render_c(prog)
    finally:
        MINPAREN = old


def _render_c(prog):
    out = []
    for g in prog["globals"]:
        if "struct" in g:
            mem, ini, k = [], [], 0
            for f in g["struct"]:
                if "anon" in f:
                    mem.append("struct { %s };" % " ".join("%s %s;" % (CNAME[x["ty"]], x["f"]) for x in f["anon"]))
                    ini.append("{%s}" % ", ".join(map(str, g["init"][k:k + len(f["anon"])])))
                    k += len(f["anon"])
                else:
                    mem.append("%s %s;" % (CNAME[f["ty"]], f["f"]))
                    ini += [str(v) for v in g["init"][k:k + 1]]
                    k += 1
            out.append("struct S_%s { %s };" % (g["n"], " ".join(mem)))
            out.append("struct S_%s %s = {%s};" % (g["n"], g["n"], ", ".join(ini)))
        elif g["len"]:
            out.append("%s %s[%d] = {%s};" % (CNAME[g["ty"]], g["n"], g["len"], ", ".join(map(str, g["init"]))))
        else:
            out.append("%s %s = %d;" % (CNAME[g["ty"]], g["n"], g["init"][0]))
    for x in prog["externs"]:
        out.append("extern %s %s(%s);" % (CNAME[x["ret"]], x["n"], ", ".join(CNAME[a] for a in x["args"])))
    for f in prog["funcs"]:
        ps = ", ".join(("%s *%s" if p.get("ptr") else "%s %s") % (CNAME[p["ty"]], p["n"]) for p in f["params"]) or "void"
        out.append("%s %s(%s) {" % (CNAME[f["ret"]], f["n"], ps))
        out += c_stmts(f["body"], 1)
        out.append("}")
    return "\n".join(out) + "\n"


def arg_vectors(prog, rng, n):
    """Argument vectors for the main function: boundary values + seeded random."""
    f = [x for x in prog["funcs"] if x["n"] == prog["main"]][0]
    vecs = []
    for k in range(n):
        v = []
        for p in f["params"]:
            lo, hi = trange(p["ty"])
            c = rng.random()
            if k == 0:
                x = 0
            elif k == 1:
                x = 1
            elif c < 0.3:
                x = rng.choice([lo, hi, -1 if lo < 0 else hi, hi // 2, 2, 3, 5, 7])
            elif c < 0.7:
                x = rng.randrange(max(lo, -16), min(hi, 17))
            else:
                x = rng.randrange(lo, hi + 1)
            v.append(x)
        vecs.append(v)
    return f, vecs


# ------------------------------------------------- encoding for tla/Src.tla
def word(v, n=8):
    """Two's complement little-endian byte limbs (TLC integers are 32-bit)."""
    v &= (1 << (8 * n)) - 1
    return [(v >> (8 * i)) & 255 for i in range(n)]


def _enc_expr(e):
    k = e["k"]
    if k == "lit":
        return {"k": "lit", "ty": e["ty"], "w": word(e["v"]), "hex": bool(e.get("hex")) and e["v"] >= 0 and e["ty"] in SUFFIX}
    if k == "var":
        return {"k": "var", "n": e["n"]}
    if k == "idx":
        return {"k": "idx", "a": e["a"], "e": _enc_expr(e["e"])}
    if k == "fld":
        return {"k": "fld", "s": e["s"], "f": e["f"]}
    if k == "deref":
        return {"k": "deref", "p": e["p"], "e": _enc_expr(e["e"])}
    if k == "addr":
        return {"k": "addr", "a": e["a"], "e": _enc_expr(e["e"])}
    if k == "un":
        return {"k": "un", "op": e["op"], "a": _enc_expr(e["a"])}
    if k == "bin":
        return {"k": "bin", "op": e["op"], "a": _enc_expr(e["a"]), "b": _enc_expr(e["b"])}
    if k == "cast":
        return {"k": "cast", "ty": e["ty"], "a": _enc_expr(e["a"])}
    if k == "cond":
        return {"k": "cond", "c": _enc_expr(e["c"]), "a": _enc_expr(e["a"]), "b": _enc_expr(e["b"])}
    if k == "call":
        return {"k": "call", "f": e["f"], "args": [_enc_expr(a) for a in e["args"]]}
    raise AssertionError(k)


def _enc_stmts(ss):
    out = []
    for s in ss:
        k = s["k"]
        if k == "decl":
            out.append({"k": k, "n": s["n"], "ty": s["ty"], "e": _enc_expr(s["e"])})
        elif k == "declarr":
            out.append({"k": k, "n": s["n"], "ty": s["ty"], "len": s["len"], "init": [word(v) for v in s["init"]]})
        elif k == "asg":
            out.append({"k": k, "lhs": _enc_expr(s["lhs"]), "op": s["op"], "e": _enc_expr(s["e"])})
        elif k == "inc":
            out.append({"k": k, "lhs": _enc_expr(s["lhs"]), "op": s["op"]})
        elif k == "if":
            out.append({"k": k, "c": _enc_expr(s["c"]), "t": _enc_stmts(s["t"]), "f": _enc_stmts(s["f"])})
        elif k in ("while", "dowhile"):
            out.append({"k": k, "c": _enc_expr(s["c"]), "b": _enc_stmts(s["b"])})
        elif k == "for":
            out.append({"k": k, "v": s["v"], "lo": word(s["lo"]), "hi": _enc_expr(s["hi"]), "b": _enc_stmts(s["b"])})
        elif k == "seq":
            out.append({"k": k, "b": _enc_stmts(s["b"])})
        elif k == "switch":
            out.append({"k": k, "e": _enc_expr(s["e"]),
                        "cases": [{"dflt": c["v"] is None, "w": word(c["v"] or 0), "b": _enc_stmts(c["b"]),
                                   "brk": bool(c["brk"])} for c in s["cases"]]})
        elif k in ("break", "continue"):
            out.append({"k": k})
        elif k in ("ret", "expr"):
            out.append({"k": k, "e": _enc_expr(s["e"])})
        else:
            raise AssertionError(k)
    return out


def to_src(prog):
    """The AST in the form tla/Src.tla reads: every integer that may exceed 31 bits as an 8-byte word,
    no nulls, type-stable records.  Pure re-encoding, no typing or evaluation."""
    gl = []
    for g in prog["globals"]:
        if "struct" in g:
            def plain(f):
                return {"f": f["f"], "ty": f["ty"], "anon": False, "sub": []}
            gl.append({"n": g["n"], "gk": "st",
                       "struct": [{"f": "", "ty": "", "anon": True, "sub": [plain(x) for x in f["anon"]]} if "anon" in f else plain(f)
                                  for f in g["struct"]],
                       "init": [word(v) for v in g["init"]]})
        elif g.get("len"):
            gl.append({"n": g["n"], "gk": "a", "ty": g["ty"], "len": g["len"], "init": [word(v) for v in g["init"]]})
        else:
            gl.append({"n": g["n"], "gk": "s", "ty": g["ty"], "len": 0, "init": [word(v) for v in g["init"]]})
    funcs = []
    for f in prog["funcs"]:
        funcs.append({"n": f["n"], "ret": f["ret"],
                      "params": [{"n": p["n"], "ty": p["ty"], "ptr": bool(p.get("ptr")), "len": p.get("len", 0)}
                                 for p in f["params"]],
                      "body": _enc_stmts(f["body"])})
    return {"globals": gl, "externs": [{"n": x["n"], "ret": x["ret"], "args": list(x["args"])} for x in prog["externs"]],
            "funcs": funcs}


def src_args(f, vec):
    return [word(v, BITS[p["ty"]] // 8) for p, v in zip(f["params"], vec)]


# ------------------------------------------------- gcc reference harness
_FMT = {True: ("%lld", "long long"), False: ("%llu", "unsigned long long")}


def _pr(label, expr, ty):
    fmt, cty = _FMT[is_signed(ty)]
    return 'printf("%s %s\\n", (%s)(%s));' % (label, fmt, cty, expr)


def render_gcc_main(prog, f, vecs, ext):
    """A complete C translation unit: the program, stub definitions of the externals that log their
    arguments and answer from the stub table, and a main that runs f on vecs[argv[1]] and prints
    RET / G lines.  Used only by the gcc reference guard (DESIGN 3.10)."""
    out = ["#include <stdio.h>", "#include <stdlib.h>", render_c(prog)]
    tab = {x["name"]: x["rets"] for x in ext}
    for x in prog["externs"]:
        rets = tab.get(x["n"], [])
        vals = []
        for w in rets:
            v = sum(b << (8 * i) for i, b in enumerate(w))
            v &= (1 << BITS[x["ret"]]) - 1
            if is_signed(x["ret"]) and v >> (BITS[x["ret"]] - 1):
                v -= 1 << BITS[x["ret"]]
            vals.append(v)
        out.append("static int n_%s;" % x["n"])
        out.append("static const %s r_%s[] = {%s};" % (CNAME[x["ret"]], x["n"], ", ".join(map(str, vals + [0]))))
        ps = ", ".join("%s a%d" % (CNAME[t], k) for k, t in enumerate(x["args"]))
        body = ['printf("CALL %s");' % x["n"]]
        for k, t in enumerate(x["args"]):
            fmt, cty = _FMT[is_signed(t)]
            body.append('printf(" %s", (%s)a%d);' % (fmt, cty, k))
        body.append('printf("\\n");')
        body.append("return n_%s < %d ? r_%s[n_%s++] : 0;" % (x["n"], len(vals), x["n"], x["n"]))
        out.append("%s %s(%s) { %s }" % (CNAME[x["ret"]], x["n"], ps, " ".join(body)))
    out.append("int main(int argc, char **argv) {")
    out.append("  int k = atoi(argv[1]);")
    out.append("  switch (k) {")
    for k, vec in enumerate(vecs):
        args = []
        for p, v in zip(f["params"], vec):
            # typed constant without relying on literal typing rules
            args.append("(%s)%s" % (CNAME[p["ty"]], ("%dLL" % v) if v > -(1 << 63) else "(-9223372036854775807LL - 1)")
                        if v < (1 << 63) else "(%s)%dULL" % (CNAME[p["ty"]], v))
        out.append("  case %d: { %s r = %s(%s); %s break; }" % (k, CNAME[f["ret"]], f["n"], ", ".join(args), _pr("RET", "r", f["ret"])))
    out.append("  }")
    for g in prog["globals"]:
        if "struct" in g:
            for m in flat_fields(g):
                out.append("  " + _pr("G %s.%s" % (g["n"], m["f"]), "%s.%s" % (g["n"], m["f"]), m["ty"]))
        elif g.get("len"):
            for j in range(g["len"]):
                out.append("  " + _pr("G %s[%d]" % (g["n"], j), "%s[%d]" % (g["n"], j), g["ty"]))
        else:
            out.append("  " + _pr("G %s" % g["n"], g["n"], g["ty"]))
    out.append("  return 0;")
    out.append("}")
    return "\n".join(out) + "\n"


# ------------------------------------------------- avoiding constructs known to be miscompiled
def _plus0(e):
    """e + 0: the same value in the promoted type of e (forces the integer promotions through `+`)."""
    return {"k": "bin", "op": "+", "a": e, "b": {"k": "lit", "ty": "i32", "v": 0}}


def sanitize(prog, classes):
    """A copy of the program that does not use the construct classes in `classes` (C01 engine: classes for which a
    systematic probe failed in this run, so that the random programs test everything else):
      unary     -x, ~x     ->  -(x + 0), ~(x + 0)
      compare   a < b ...  ->  (a + 0) < (b + 0)
      shift     a << b     ->  a << (int)b
      compound  lv op= e   ->  lv = lv op (e)
      dowhile   do B while (c);  ->  while (c) B
    The result is simply another program (Src.tla is run on it again); nothing relies on equivalence."""
    cmpops = ("<", "<=", ">", ">=", "==", "!=")

    def ex(e):
        k = e["k"]
        if k in ("lit", "var", "fld"):
            return dict(e)
        if k in ("idx", "deref", "addr"):
            return dict(e, e=ex(e["e"]))
        if k == "un":
            a = ex(e["a"])
            return dict(e, a=_plus0(a) if "unary" in classes and e["op"] in ("-", "~") else a)
        if k == "bin":
            a, b = ex(e["a"]), ex(e["b"])
            if "compare" in classes and e["op"] in cmpops:
                a, b = _plus0(a), _plus0(b)
            if "shift" in classes and e["op"] in ("<<", ">>"):
                b = {"k": "cast", "ty": "i32", "a": b}
            return dict(e, a=a, b=b)
        if k == "cast":
            return dict(e, a=ex(e["a"]))
        if k == "cond":
            return dict(e, c=ex(e["c"]), a=ex(e["a"]), b=ex(e["b"]))
        if k == "call":
            return dict(e, args=[ex(a) for a in e["args"]])
        raise AssertionError(k)

    def st(ss):
        out = []
        for s in ss:
            k = s["k"]
            if k in ("decl", "ret", "expr"):
                out.append(dict(s, e=ex(s["e"])))
            elif k == "asg":
                lhs, e = ex(s["lhs"]), ex(s["e"])
                if "compound" in classes and s["op"] != "=":
                    op = s["op"][:-1]
                    if "shift" in classes and op in ("<<", ">>"):
                        e = {"k": "cast", "ty": "i32", "a": e}
                    out.append({"k": "asg", "lhs": lhs, "op": "=", "e": {"k": "bin", "op": op, "a": ex(s["lhs"]), "b": e}})
                else:
                    out.append(dict(s, lhs=lhs, e=e))
            elif k == "inc":
                out.append(dict(s, lhs=ex(s["lhs"])))
            elif k == "if":
                out.append(dict(s, c=ex(s["c"]), t=st(s["t"]), f=st(s["f"])))
            elif k in ("while", "dowhile"):
                out.append(dict(s, k="while" if "dowhile" in classes else k, c=ex(s["c"]), b=st(s["b"])))
            elif k == "for":
                out.append(dict(s, hi=ex(s["hi"]), b=st(s["b"])))
            elif k == "seq":
                out.append(dict(s, b=st(s["b"])))
            elif k == "switch":
                out.append(dict(s, e=ex(s["e"]), cases=[dict(c, b=st(c["b"])) for c in s["cases"]]))
            else:
                out.append(dict(s))
        return out

    return dict(prog, funcs=[dict(f, body=st(f["body"])) for f in prog["funcs"]])
