"""Independent projection of a live ppci.wasm.components.Module into the JSON that Wasm.tla reads
(DESIGN section 3.5).  Written against the data attributes of the component classes only (definitions,
.id/.ref/.params/.results/.locals/.instructions/.opcode/.args/...); no use of ppci's text or binary
writers, of its opcode tables or of __eq__.

Schema (all indices are the 0-based indices of the binary format; -1 = absent):
  module  = {types:[{params:[ty],results:[ty]}], imports:[{mod,name,kind,type,...}],
             funcs:[{type,locals:[ty],body:[ins]}], tables:[{kind,min,max}], mems:[{min,max}],
             globals:[{ty,mut,init:[ins]}], exports:[{name,kind,idx}], start,
             elems:[{mode,table,offset:[ins],refs:[idx]}], datas:[{mode,mem,offset:[ins],bytes:[..]}]}
  ins     = {op, t, o, ...}: op = mnemonic, t/o = the mnemonic's part before / after the first '.',
            plus  v (const: little-endian byte limbs), x (local/global/func index), l (label depth),
            ls + d (br_table), bt (block type {k:"empty"} | {k:"val",ty} | {k:"idx",x}),
            type + table (call_indirect), align + off (memory access; off as 4 limbs), m (memory index).
"""


def limbs(v, n):
    v = int(v) & ((1 << (8 * n)) - 1)
    return [(v >> (8 * i)) & 255 for i in range(n)]


def _idx(ref):
    """Index of a Ref / plain int; -1 when it carries no integer index."""
    if isinstance(ref, bool):
        return -1
    if isinstance(ref, int):
        return ref
    i = getattr(ref, "index", None)
    return i if isinstance(i, int) and not isinstance(i, bool) else -1


def _int(v, default=-1):
    return v if isinstance(v, int) and not isinstance(v, bool) else default


def project_blocktype(bt):
    if bt == "emptyblock" or bt is None:
        return {"k": "empty"}
    if isinstance(bt, str):
        return {"k": "val", "ty": bt}
    return {"k": "idx", "x": _idx(bt)}


def project_instruction(ins):
    op = ins.opcode
    args = tuple(ins.args)
    t, _, o = op.partition(".")
    if not _:
        t, o = "", op
    r = {"op": op, "t": t, "o": o}
    try:
        if op in ("i32.const", "i64.const"):
            r["v"] = limbs(args[0], 4 if t == "i32" else 8)
        elif op in ("f32.const", "f64.const"):
            r["fv"] = repr(args[0])
        elif op in ("local.get", "local.set", "local.tee", "global.get", "global.set", "call", "ref.func"):
            r["x"] = _idx(args[0])
        elif op in ("br", "br_if"):
            r["l"] = _idx(args[0])
        elif op == "br_table":
            labels = [_idx(a) for a in args[0]]
            r["ls"] = labels[:-1]
            r["d"] = labels[-1] if labels else -1
        elif op in ("block", "loop", "if"):
            r["bt"] = project_blocktype(args[0] if args else None)
        elif op == "call_indirect":
            r["type"] = _idx(args[0])
            r["table"] = _idx(args[1]) if len(args) > 1 else 0
        elif o in ("load", "load8_s", "load8_u", "load16_s", "load16_u", "load32_s", "load32_u",
                   "store", "store8", "store16", "store32") and t in ("i32", "i64", "f32", "f64"):
            r["align"] = _int(args[0])
            r["off"] = limbs(args[1], 4)
            r["offok"] = bool(isinstance(args[1], int) and 0 <= args[1] < (1 << 32))
        elif op in ("memory.size", "memory.grow"):
            r["m"] = _int(args[0], 0) if args else 0
        elif op == "select":
            tys = args[0] if args else []
            if tys:
                r["tys"] = [str(x) for x in tys]
        elif args:
            r["args"] = [repr(a)[:40] for a in args]
    except Exception as e:  # odd argument shapes (changed tree): keep the machine's fields type-stable
        r["op"] = "?" + op
        r["t"], r["o"] = "", "?" + op
        r["err"] = type(e).__name__
    return r


def project_expr(instrs):
    return [project_instruction(i) for i in (instrs or [])]


def project_module(m):
    from ppci.wasm import components as C

    out = {"types": [], "imports": [], "funcs": [], "tables": [], "mems": [], "globals": [], "exports": [],
           "start": -1, "elems": [], "datas": [], "customs": 0}
    for d in m.definitions:
        if isinstance(d, C.Type):
            out["types"].append({"params": [p[1] for p in d.params], "results": list(d.results)})
        elif isinstance(d, C.Import):
            r = {"mod": d.modname, "name": d.name, "kind": d.kind, "type": -1}
            if d.kind == "func":
                r["type"] = _idx(d.info[0])
            elif d.kind == "table":
                r["info"] = [str(d.info[0]), _int(d.info[1]), _int(d.info[2])]
            elif d.kind == "memory":
                r["info"] = [_int(d.info[0]), _int(d.info[1])]
            elif d.kind == "global":
                r["info"] = [str(d.info[0]), bool(d.info[1])]
            out["imports"].append(r)
        elif isinstance(d, C.Func):
            out["funcs"].append({"type": _idx(d.ref), "locals": [l[1] for l in d.locals],
                                 "body": project_expr(d.instructions)})
        elif isinstance(d, C.Table):
            out["tables"].append({"kind": d.kind, "min": _int(d.min), "max": _int(d.max)})
        elif isinstance(d, C.Memory):
            out["mems"].append({"min": _int(d.min), "max": _int(d.max)})
        elif isinstance(d, C.Global):
            out["globals"].append({"ty": d.typ, "mut": bool(d.mutable), "init": project_expr(d.init)})
        elif isinstance(d, C.Export):
            out["exports"].append({"name": d.name, "kind": d.kind, "idx": _idx(d.ref)})
        elif isinstance(d, C.Start):
            out["start"] = _idx(d.ref)
        elif isinstance(d, C.Elem):
            r = {"mode": "passive", "table": -1, "offset": [], "refs": []}
            if d.mode:
                r["mode"] = "active"
                r["table"] = _idx(d.mode[0])
                r["offset"] = project_expr(d.mode[1])
            for ref in d.refs:
                if isinstance(ref, list):      # element expression
                    e = project_expr(ref)
                    r["refs"].append(e[0]["x"] if len(e) == 1 and e[0]["op"] == "ref.func" else -1)
                else:
                    r["refs"].append(_idx(ref))
            out["elems"].append(r)
        elif isinstance(d, C.Data):
            r = {"mode": "passive", "mem": -1, "offset": [], "bytes": list(d.data)}
            if d.mode:
                r["mode"] = "active"
                r["mem"] = _idx(d.mode[0])
                r["offset"] = project_expr(d.mode[1])
            out["datas"].append(r)
        elif isinstance(d, C.Custom):
            out["customs"] += 1
        elif isinstance(d, C.DataCount):
            out["datacount"] = _int(d.n)
    return out


def strip(mod):
    """The part of a projected module the machine executes (drops diagnostic fields)."""
    return {k: v for k, v in mod.items() if k not in ("customs", "datacount")}
