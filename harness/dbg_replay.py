"""Deterministic driver for ppci.binutils.dbg (extension property X17).

The real Debugger + GdbDebugDriver (+ the real RspHandler / decoder underneath) talk to a
scripted remote stub over an in-memory transport.  Requests with a direct reply and all
acknowledgements are answered synchronously inside transport.send(); what is asynchronous in
the protocol stays under the control of the session script:
  * interrupt bytes 0x03 wait in the stub's input until the script lets the stub see them
    (or until a later packet flushes them, the line being FIFO),
  * stop replies are produced when the script makes the target halt,
  * the client's stop thread (the real GdbDebugDriver._handle_stop_queue, run as a controlled
    thread that is parked at its queue read) consumes one stop reply when the script says so.
Exactly one thread runs at any time; every queue read that the real code would block on
returns at once (virtual time: nothing else can run, so the time-out is the only outcome).

The driver records one event per script step (format: tla/DbgSession_Trace.tla): the packets the
stub received, the value the command returned, the events fired, the projected state of the
client objects and of the target.  No verdict is computed here.
"""
import queue

from . import rsp_replay as R


class NBQueue(queue.Queue):
    """queue.Queue whose blocking operations time out immediately (virtual time)."""

    def get(self, block=True, timeout=None):
        return queue.Queue.get(self, False)

    def put(self, item, block=True, timeout=None):
        return queue.Queue.put(self, item, False)


def _cs(body):
    return sum(body) % 256


def frame(text):
    b = text.encode("ascii")
    return b"$" + b + b"#" + ("%02x" % _cs(b)).encode("ascii")


def le32(v):
    return "".join("%02x" % ((v >> (8 * k)) & 255) for k in range(4))


def unle32(h):
    b = bytes.fromhex(h)
    return sum(x << (8 * k) for k, x in enumerate(b))


class Stub:
    """Scripted gdb remote stub with a toy target (registers, data memory, breakpoints).
    It speaks the dialect of the client under test (`m a,n` / `G data` with a space)."""

    def __init__(self, nregs, pcs, membase, memlen):
        self.nregs = nregs
        self.pcs = list(pcs)
        self.membase = membase
        self.memlen = memlen
        self.st = "running"
        self.regs = [self.pcs[0]] * nregs
        self.mem = [0] * memlen
        self.bps = set()
        self.intr = 0
        self.inbuf = bytearray()
        self.rx = []  # abstract packets received during the current step
        self.to_client = None  # callable(bytes)

    # -- towards the client ------------------------------------------------
    def _emit(self, data):
        for b in data:
            self.to_client(bytes([b]))

    def stop_reply(self, sig, form, pc=None):
        if form == "T":
            self._emit(frame("T%02x%02x:%s;" % (sig, 0, le32(pc))))
        else:
            self._emit(frame("S%02x" % sig))

    # -- script-controlled target behaviour ----------------------------------
    def flush_intr(self):
        if self.intr:
            self.intr = 0
            if self.st != "halted":
                self.st = "halted"
                self.stop_reply(2, "S")

    def hit_break(self, addr, form):
        self.st = "halted"
        self.regs[0] = addr
        self.stop_reply(5, form, addr)

    def step_done(self, form):
        pc = self.regs[0]
        if pc in self.pcs:
            pc = self.pcs[(self.pcs.index(pc) + 1) % len(self.pcs)]
        self.regs[0] = pc
        self.st = "halted"
        self.stop_reply(5, form, pc)

    # -- bytes from the client ---------------------------------------------------
    def on_bytes(self, data):
        self.inbuf.extend(data)
        while self.inbuf:
            b = self.inbuf[0]
            if b == 3:
                del self.inbuf[0]
                self.intr += 1
                self.rx.append({"k": "intr"})
            elif b in (43, 45):  # the client's ack / nack of our packets
                del self.inbuf[0]
                if b == 45:
                    self.rx.append({"k": "nack"})
            elif b == 36:
                h = self.inbuf.find(b"#")
                if h < 0 or len(self.inbuf) < h + 3:
                    return
                raw = bytes(self.inbuf[: h + 3])
                del self.inbuf[: h + 3]
                self.packet(raw)
            else:
                del self.inbuf[0]
                self.rx.append({"k": "junk", "b": b})

    def packet(self, raw):
        body = raw[1:-3]
        try:
            good = int(raw[-2:], 16) == _cs(body)
        except ValueError:
            good = False
        if not good:
            self.rx.append({"k": "badsum", "raw": list(raw)})
            self._emit(b"-")
            return
        self.flush_intr()  # FIFO: the interrupt came first
        self._emit(b"+")
        text = body.decode("latin-1")
        rec, reply = self.handle(text)
        self.rx.append(rec)
        if reply is not None:
            self._emit(frame(reply))

    def handle(self, t):
        bad = ({"k": "?", "raw": [ord(c) for c in t][:40]}, "")
        try:
            if t == "c":
                if self.st == "halted":
                    self.st = "running"
                return {"k": "c"}, None
            if t == "s":
                if self.st == "halted":
                    self.st = "stepping"
                return {"k": "s"}, None
            if t == "g":
                return {"k": "g"}, "".join(le32(v) for v in self.regs)
            if t.startswith("p "):
                r = int(t[2:], 16)
                if not 0 <= r < self.nregs:
                    return bad
                return {"k": "p", "r": r}, le32(self.regs[r])
            if t.startswith("P "):
                r, v = t[2:].split("=")
                r = int(r, 16)
                if not 0 <= r < self.nregs or len(v) != 8:
                    return bad
                self.regs[r] = unle32(v)
                return {"k": "P", "r": r, "v": self.regs[r]}, "OK"
            if t.startswith("G "):
                h = t[2:]
                if len(h) != 8 * self.nregs:
                    return bad
                self.regs = [unle32(h[8 * k: 8 * k + 8]) for k in range(self.nregs)]
                return {"k": "G", "v": list(self.regs)}, "OK"
            if t.startswith("m "):
                a, n = [int(x, 16) for x in t[2:].split(",")]
                if not (self.membase <= a and a + n <= self.membase + self.memlen and n >= 0):
                    return bad
                o = a - self.membase
                return {"k": "m", "a": a, "n": n}, bytes(self.mem[o: o + n]).hex()
            if t.startswith("M "):
                head, h = t[2:].split(":")
                a, n = [int(x, 16) for x in head.split(",")]
                d = list(bytes.fromhex(h))
                if len(d) != n or not (self.membase <= a and a + n <= self.membase + self.memlen):
                    return bad
                o = a - self.membase
                self.mem[o: o + n] = d
                return {"k": "M", "a": a, "d": d}, "OK"
            if t[:3] in ("Z0,", "z0,"):
                a, ln = t[3:].split(",")
                a = int(a, 16)
                if ln != "4":
                    return bad
                if t[0] == "Z":
                    self.bps.add(a)
                else:
                    self.bps.discard(a)
                return {"k": t[0], "a": a}, "OK"
        except Exception:
            return bad
        return bad

    def project(self):
        return {"st": self.st, "regs": list(self.regs), "mem": list(self.mem), "bps": sorted(self.bps),
                "intr": self.intr}


class Transport:
    """In-memory transport: what the client sends reaches the stub within send()."""

    def __init__(self, stub):
        self.stub = stub
        self.on_byte = None
        stub.to_client = lambda b: self.on_byte(b)

    def send(self, data):
        self.stub.on_bytes(bytes(data))

    def connect(self):
        pass

    def disconnect(self):
        pass

    def rx_avail(self):
        return False

    def recv(self):
        return b""


class _Obj:
    """Stand-in for the linked object: symbol id -> address (symbol id k = address k)."""

    def get_symbol_id_value(self, symbol_id):
        return symbol_id


FILENAME = "prog.c3"


def row_of(addr):
    return 10 + addr


class Session:
    def __init__(self, kind, nregs=3, pcs=(0, 4, 8), membase=16, memlen=2, pcres=0):
        from ppci.api import get_arch
        from ppci.binutils import debuginfo
        from ppci.binutils.dbg.debugger import Debugger
        from ppci.common import SourceLocation

        self.kind = kind
        self.nregs = nregs
        self.fired = []
        self.stub = Stub(nregs, pcs, membase, memlen)
        self.thr = None
        arch = get_arch("example")
        if kind == "gdb":
            from ppci.binutils.dbg.gdb.client import GdbDebugDriver

            self.drv = GdbDebugDriver(arch, Transport(self.stub), pcresval=pcres)
            self.drv._rsp._ack_queue = NBQueue(maxsize=getattr(self.drv._rsp._ack_queue, "maxsize", 1))
            self.drv._msg_queue = NBQueue(maxsize=getattr(self.drv._msg_queue, "maxsize", 1))
            self.stopq = R.VQueue(0, lambda x: None)
            self.drv._stop_msg_queue = self.stopq
            # the real stop thread body, parked at its queue read
            ct = R.CThread("stopthread")

            def body():
                R._current.ct = ct
                return self.drv._handle_stop_queue()

            ct.start(body)
            ct.resume()
            self.thr = ct
        else:
            from ppci.binutils.dbg.dummy_driver import DummyDebugDriver

            self.drv = DummyDebugDriver()
        self.dbg = Debugger(arch, self.drv)
        self.regs = list(self.dbg.registers)
        self.dbg.events.on_start += lambda: self.fired.append("start")
        self.dbg.events.on_stop += lambda: self.fired.append("stop")
        di = debuginfo.DebugInfo()
        for a in pcs:
            di.add(debuginfo.DebugLocation(SourceLocation(FILENAME, row_of(a), 1, 1), address=debuginfo.DebugAddress(a)))
        self.dbg.debug_info = di
        self.dbg.obj = _Obj()

    # ---- one script step ----------------------------------------------------
    def step(self, act):
        a = act["a"]
        self.stub.rx = []
        self.fired = []
        ret = {"t": "none", "v": []}
        try:
            ret = self._do(a, act)
        except R.Hung:
            ret = {"t": "exc:Hung", "v": []}
        except BaseException as e:  # the outcome class is the observation
            ret = {"t": "exc:" + type(e).__name__, "v": []}
        ev = dict(act)
        ev["tx"] = list(self.stub.rx)
        ev["ret"] = ret
        ev["evs"] = list(self.fired)
        ev["view"] = self.view()
        ev["tgt"] = self.stub.project()
        return ev

    def _do(self, a, act):
        d = self.dbg
        if a == "run":
            return _none(d.run())
        if a == "stop":
            return _none(d.stop())
        if a == "step":
            return _none(d.step())
        if a == "restart":
            return _none(d.restart())
        if a == "setbp":
            return _none(d.set_breakpoint(FILENAME, row_of(act["x"])))
        if a == "clrbp":
            return _none(d.clear_breakpoint(FILENAME, row_of(act["x"])))
        if a in ("rmem", "rmem0"):
            r = d.read_mem(act.get("x", 0), act["n"])
            return {"t": "bytes", "v": list(r)} if isinstance(r, (bytes, bytearray)) else {"t": "odd:" + repr(r)[:40], "v": []}
        if a == "wmem":
            return _none(d.write_mem(act["x"], bytes(act["d"])))
        if a == "rregs":
            r = d.get_register_values(self.regs)
            if isinstance(r, dict) and not r:
                return {"t": "regs", "v": []}
            if isinstance(r, dict) and set(r) == set(self.regs) and all(isinstance(v, int) and 0 <= v < 2 ** 31 for v in r.values()):
                return {"t": "regs", "v": [r[x] for x in self.regs]}
            return {"t": "odd:" + repr(r)[:60], "v": []}
        if a == "wregs":
            d.register_values = dict(zip(self.regs, act["w"]))
            return _none(d.set_register_values())
        if a == "getpc":
            r = d.get_pc()
            return {"t": "int", "v": [r]} if isinstance(r, int) and not isinstance(r, bool) and 0 <= r < 2 ** 31 else {"t": "odd:" + repr(r)[:40], "v": []}
        if a == "setpc":
            return _none(self.drv.set_pc(act["v"]))
        if a == "tbreak":
            self.stub.hit_break(act["x"], act["form"])
            return {"t": "none", "v": []}
        if a == "tstep":
            self.stub.step_done(act["form"])
            return {"t": "none", "v": []}
        if a == "tintr":
            self.stub.flush_intr()
            return {"t": "none", "v": []}
        if a == "stopthr":
            if self.thr.where[0] != "get":
                return {"t": "exc:StopThreadDead", "v": []}
            if not self.stopq.items:
                return {"t": "exc:StopQueueEmpty", "v": []}
            where = self.thr.resume("go")
            if where[0] == "end":
                return {"t": "exc:StopThread:%s" % (where[1][1],), "v": []}
            return {"t": "none", "v": []}
        raise ValueError("unknown action %r" % (a,))

    def possible(self, act):
        a = act["a"]
        if a == "tintr":
            return self.stub.intr > 0
        if a == "stopthr":
            return bool(self.stopq.items)
        if a == "tbreak":
            return self.stub.st == "running" and act["x"] in self.stub.bps
        if a == "tstep":
            return self.stub.st == "stepping"
        return True

    def view(self):
        try:
            st = self.dbg.status
            name = getattr(st, "name", repr(st))
            run, halt = self.dbg.is_running, self.dbg.is_halted
            if (name == "RUNNING") != bool(run) or bool(run) == bool(halt):
                name = "%s/run=%s/halt=%s" % (name, run, halt)
        except BaseException as e:
            name = "exc:" + type(e).__name__
        v = {"status": name, "cache": [-1] * self.nregs, "reason": 2, "pcstop": -1, "q": 0}
        if self.kind == "gdb":
            c = getattr(self.drv, "_register_value_cache", {})
            try:
                v["cache"] = [_int(c.get(r, -1)) for r in self.regs]
                extra = [k for k in c if k not in self.regs]
                if extra:
                    v["cache"] = [-2]
            except BaseException:
                v["cache"] = [-2]
            v["reason"] = _int(getattr(self.drv, "stopreason", -2))
            v["pcstop"] = _int(getattr(self.drv, "pcstopval", -1))
            v["q"] = len(self.stopq.items)
        return v

    def close(self):
        if self.thr is not None and self.thr.where[0] == "get":
            try:
                self.stopq.items[:] = [1337]
                self.thr.resume("go")
            except R.Hung:
                pass
            n = 0
            while self.thr.where[0] == "get" and n < 20:
                try:
                    self.thr.resume("timeout")
                except R.Hung:
                    break
                n += 1


def _int(v):
    return v if isinstance(v, int) and not isinstance(v, bool) and -2 ** 31 < v < 2 ** 31 else -2


def _none(r):
    return {"t": "none", "v": []} if r is None else {"t": "odd:" + repr(r)[:40], "v": []}


def run_session(kind, acts, consts, adaptive=False):
    """Replay a list of actions into fresh real objects; returns the recorded events.
    adaptive: a hand-written script's target reactions / stop-thread steps are dropped when the real
    objects offer no occasion for them (choice of the input, never of an expected result)."""
    s = Session(kind, **consts)
    out = []
    try:
        for act in acts:
            if adaptive and kind == "gdb" and not s.possible(act):
                continue
            out.append(s.step(act))
    finally:
        s.close()
    return out
